"""C15 - dependency-graph construction is exact (decided: refusals, determinism, orientation, validity of the shipped graphs)."""
from __future__ import annotations

import ast

from ..astq import Canon, Inliner, U, raised_class_name, statements, store_targets, unify
from ..cfg import CFG, header_walk
from ..index import AnalysisError, walk_no_nested
from ._shared import refusal_side_conditions
from ..selftest import V
from ._shared import callgraph

PROP = "C15"
LEVEL_TEXT = (
    "Static check of variables/dag.py: (R1) in VariablesDAG.__post_init__ every computed field is stored only after calls that reach, on every path, the refusal of "
    "unknown nodes, self loops, isolated nodes and the two 'not a DAG' refusals of the topological sort (call-graph reachability + dominance); each refusal is present "
    "under its guard; (R2) determinism: in the order-producing functions every iteration ranges over an ordered source (sorted(...), containers built from sorted "
    "sources, ranges, tensors, tuples) and the work list is a FIFO queue - unordered iteration is tolerated only in the set-valued helper; (R3) every variable graph "
    "extracted from the shipped model kinds/configurations is a valid input: acyclic, closed, no isolated node, no reserved name; (R4) orientation agreement: the "
    "path matrix is written with [parent, child] and propagated column-wise, children are read from rows and ancestors from columns, all in the emitted order. "
    "NOT decided: that Kahn's loop and the column propagation as written yield the exact order / transitive closures for every graph (an algorithmic property)."
)

DAG = "leaspy.variables.dag"
CLS = "VariablesDAG"


def r1_validators(ctx):
    ctx.rule("C15.R1", "validators dominate every stored result; each refusal present", 9)
    ix = ctx.ix
    cg = callgraph(ctx)
    pi = ix.func(DAG, f"{CLS}.__post_init__", "C15.R1")
    cfg = CFG(pi.node)
    setattrs = [n for n, st in cfg.stmt.items() if st is not None and any(isinstance(c, ast.Call) and U(c.func) == "object.__setattr__" for c in header_walk(st))]
    anchor_ok = len(setattrs) >= 4
    validators = {
        "_raise_if_bad_nodes_in_edges": "unknown nodes / self loops",
        "_raise_if_left_alone_nodes": "isolated variables",
        "compute_topological_order_and_path_matrix": "cycles (not a DAG)",
    }
    for vname, what in validators.items():
        vf = ix.func(DAG, f"{CLS}.{vname}", "C15.R1")
        # call nodes of __post_init__ whose callee reaches the validator on every path
        good_nodes = []
        for s in cg.sites[pi.key]:
            if not s.targets:
                continue
            n = cfg.node_containing(s.node)
            for t in s.targets:
                if _always_reaches(ix, cg, t, vf, set()):
                    good_nodes.append(n)
        # construction itself refuses: the validator is reached on every path through __post_init__ (a refusal deferred to the first read of an
        # order-dependent attribute lets the invalid graph object exist)
        runs = bool(good_nodes) and cfg.all_paths_pass(cfg.entry, [g for g in good_nodes if g is not None])
        if not runs:
            ctx.violation("C15.R1", pi, pi.node, f"constructing the graph no longer runs the refusal of {what} ({vname}) on every path: such definitions are accepted and yield a graph object; "
                          "the error - if any - only comes when an order-dependent attribute is read", construct=f"{vname} before results")
            continue
        if not anchor_ok:
            ctx.unknown("C15.R1", pi, pi.node, f"the computed fields are no longer stored by object.__setattr__ in __post_init__ ({len(setattrs)} found, 4 confirmed)", construct=f"{vname} before results")
            continue
        ok = bool(good_nodes) and all(any(cfg.dominates(g, sa) for g in good_nodes) for sa in setattrs)
        ctx.check(ok, "C15.R1", pi, pi.node, f"refusal of {what} runs before any result is stored",
                  f"a computed field of the graph can be stored without the refusal of {what} ({vname}) having run", construct=f"{vname} before results")
    # each refusal present under its guard
    UNK = "set().union(*$0.values()).difference($1)"
    LOOPS = "{%0 for %0, %1 in $0.items() if %0 in %1}"
    ALONE = "{%0 for %0, %1 in $0.items() if len(%1) == 0 and len($1[%0]) == 0}"
    want = [("_raise_if_bad_nodes_in_edges", {f"len({UNK})", UNK, f"len({UNK}) > 0"}, "unknown nodes", "unknown = all referenced nodes minus declared ones"),
            ("_raise_if_bad_nodes_in_edges", {f"len({LOOPS})", LOOPS, f"len({LOOPS}) > 0"}, "self references", "self loop = node among its own edges"),
            ("_raise_if_left_alone_nodes", {f"len({ALONE})", ALONE, f"len({ALONE}) > 0"}, "isolated variables", "isolated = no child and no ancestor"),
            ("compute_topological_order_and_path_matrix", {"set(%0) != set(sorted($1.keys()))", "set(%0) != set(sorted($1))", "len(%0) != len(sorted($1.keys()))", "len(%0) != len(sorted($1.keys()))"},
             "cycle (some node never became a root)", "emitted nodes == all nodes"),
            ("compute_topological_order_and_path_matrix", None, "cycle (path matrix not strictly upper-triangular)", "path matrix == its strict upper triangle")]
    for fn, forms, what, meaning in want:
        f = ix.func(DAG, f"{CLS}.{fn}", "C15.R1")
        c = CFG(f.node)
        cn = Canon(f.node)
        guards = [cn.text(c.stmt[h].test) for r in c.nodes(lambda s: isinstance(s, ast.Raise)) for h, lab in c.if_guards(r) if lab]
        if forms is None:
            found = any("triu(1)" in g_ and g_.startswith("not torch.equal(") for g_ in guards)
        else:
            found = any(g_ in forms for g_ in guards)
        ctx.check(found, "C15.R1", f, f.node, f"refusal present: {what} ({meaning})", f"the refusal of {what} (a raise guarded by `{sorted(forms)[0] if forms else 'not torch.equal(M, M.triu(1))'}`) is gone or tests something else",
                  construct=f"refusal: {what}")
        own = (lambda g_: "triu(1)" in g_ and g_.startswith("not torch.equal(")) if forms is None else (lambda g_: g_ in forms)
        for r in c.nodes(lambda s: isinstance(s, ast.Raise)):
            if not any(lab and own(cn.text(c.stmt[h].test)) for h, lab in c.if_guards(r)):
                continue
            side = refusal_side_conditions(c, r, own, cn.text)
            for st_, g_, kind in side:
                ctx.violation("C15.R1", f, st_, f"the refusal of {what} {kind} `{g_[:80]}`: some malformed definitions are accepted", construct=f"refusal unconditional: {what}")
            if not side:
                ctx.ok("C15.R1", f, c.stmt[r], f"refusal of {what}: no side condition", construct=f"refusal unconditional: {what}")
    # the validators are handed the whole graph: the complete children map / edge map / node set, never a filtered part of it
    SITES = [
        ("_compute_direct_children", ["?ch = {?n: frozenset(?ch[?n]) for ?n in $1}", "$0._raise_if_left_alone_nodes(?ch, $0.direct_ancestors)", "return ?ch"], "_raise_if_left_alone_nodes",
         "the isolated-variable refusal is run on the children map of every node and the full ancestors map"),
        ("_check_consistency_of_nodes", ["?nd = frozenset($0.variables.keys())", "$0._raise_if_bad_nodes_in_edges($0.direct_ancestors, ?nd, what='ancestors')", "return ?nd"], "_raise_if_bad_nodes_in_edges",
         "the unknown-node / self-loop refusal is run on the full ancestors map against all declared nodes"),
        ("_compute_topological_orders", ["?sn, ?pm = $0.compute_topological_order_and_path_matrix($1, $0.direct_ancestors)"], "compute_topological_order_and_path_matrix",
         "the cycle refusal is run on the complete children / ancestors maps"),
    ]
    for fn, pats, callee, meaning in SITES:
        f = ix.func(DAG, f"{CLS}.{fn}", "C15.R1")
        L_ = Canon(f.node).lines(False, True)
        b_ = unify(L_, pats)
        in_order = b_ is not None and all(b_[f"#{i}"] < b_[f"#{i + 1}"] for i in range(len(pats) - 1))
        calls_ = [ln for ln in L_ if callee + "(" in ln]
        text = calls_[0] if calls_ else ""
        if in_order:
            ctx.ok("C15.R1", f, f.node, meaning, construct=f"arguments of {callee}")
        else:
            import re as _re
            filtered = bool(_re.search(r"\bfor\b.*\bif\b", text)) or "filter(" in text
            m_ = _re.search(r"_raise_if_bad_nodes_in_edges\(([^,()]+),", text) if callee == "_raise_if_bad_nodes_in_edges" else None
            cn_ = Canon(f.node)
            cn_.lines(False, True)
            first = m_.group(1).strip() if m_ else None
            first_src = (cn_.real_name(first) or first) if first and first.startswith("%") else first
            if filtered:
                ctx.violation("C15.R1", f, f.node, f"`{text[:110]}` hands the validator a filtered part of the graph: the malformed definitions among the nodes left out are accepted", construct=f"arguments of {callee}")
            elif first is not None and first != "$0.direct_ancestors" and "children" in (first_src or ""):
                ctx.violation("C15.R1", f, f.node, f"the refusal of unknown variables / self references is run on `{first_src}` (a mapping built over the declared nodes only), not on the declared "
                              "ancestors `self.direct_ancestors`: a dependency on a name that is not a variable is invisible there and is silently dropped", construct=f"arguments of {callee}")
            else:
                ctx.anchor(False, "C15.R1", f, f.node, "", f"call of {callee} with the complete structures", construct=f"arguments of {callee}")
    # wherever it is called from, the unknown-variable / self-reference refusal looks at the declared ancestors: that mapping is the only
    # place where a name that is not a variable can appear (the children map is built over the declared nodes)
    n_calls = 0
    for b_ in ix.classes[(DAG, CLS)].body:
        if not isinstance(b_, ast.FunctionDef):
            continue
        fm = ix.funcs[(DAG, f"{CLS}.{b_.name}")]
        for c in ast.walk(b_):
            if isinstance(c, ast.Call) and isinstance(c.func, ast.Attribute) and c.func.attr == "_raise_if_bad_nodes_in_edges" and c.args:
                n_calls += 1
                a0 = U(c.args[0])
                if a0 == "self.direct_ancestors":
                    ctx.ok("C15.R1", fm, c, "unknown variables / self references looked for in the declared ancestors", construct="edges checked for unknown variables")
                elif "children" in a0:
                    ctx.violation("C15.R1", fm, c, f"the refusal of unknown variables / self references is run on `{a0}` (a mapping built over the declared nodes only), not on the declared "
                                  "ancestors `self.direct_ancestors`: a dependency on a name that is not a variable is invisible there and is silently dropped", construct="edges checked for unknown variables")
                else:
                    ctx.unknown("C15.R1", fm, c, f"the refusal of unknown variables is run on `{a0}`", construct="edges checked for unknown variables")
    f = ix.func(DAG, f"{CLS}.compute_topological_order_and_path_matrix", "C15.R1")
    L = Canon(f.node).lines(False, True)
    ok = unify(L, ["?sn += (?n,)", "if set(?sn) != set(?nodes)", "return (?sn, ?pm)"]) is not None
    ctx.check(ok, "C15.R1", f, f.node, "the emitted order is what the cycle test compares and what is returned", "the cycle test no longer compares the emitted order with the set of nodes", construct="cycle test on the emitted order")


def _always_reaches(ix, cg, f, target, seen) -> bool:
    """`target` is called on every normal path of f (directly or through a callee with the same property)."""
    if f.key == target.key:
        return True
    if f.key in seen:
        return False
    seen = seen | {f.key}
    cfg = CFG(f.node)
    nodes = []
    for s in cg.sites.get(f.key, []):
        if any(_always_reaches(ix, cg, t, target, seen) for t in s.targets):
            n = cfg.node_containing(s.node)
            if n is not None:
                nodes.append(n)
    return bool(nodes) and cfg.all_paths_pass(cfg.entry, nodes)


ORDER_FUNCS = ["compute_topological_order_and_path_matrix", "compute_sorted_children_and_ancestors", "_stratify_variables", "_compute_topological_orders"]


def r2_determinism(ctx):
    ctx.rule("C15.R2", "order-producing functions iterate ordered sources only; FIFO work list", 6)
    ix = ctx.ix
    for fn in ORDER_FUNCS:
        f = ix.func(DAG, f"{CLS}.{fn}", "C15.R2")
        params = {a.arg: U(a.annotation) if a.annotation is not None else "" for a in f.node.args.args}
        ordered = {p for p, ann in params.items() if ann.startswith(("tuple", "list", "torch.Tensor", "Tuple", "List"))}
        unordered = {p for p, ann in params.items() if "FrozenSet" in ann or ann.startswith(("set", "frozenset", "Set"))}
        # forward pass over assignments
        for st in sorted(statements(f.node), key=lambda s: s.lineno):
            if isinstance(st, (ast.Assign, ast.AnnAssign)) and st.value is not None:
                t = st.targets[0] if isinstance(st, ast.Assign) else st.target
                if isinstance(t, ast.Name):
                    k = _orderedness(st.value, ordered, unordered)
                    if isinstance(st.value, ast.DictComp) and _orderedness(st.value.value, ordered, unordered) == "unordered":
                        unordered.add(t.id + "[]")  # a dictionary whose *values* are set-like
                    if k == "ordered":
                        ordered.add(t.id)
                        unordered.discard(t.id)
                    elif k == "unordered":
                        unordered.add(t.id)
        iters = []
        for x in walk_no_nested(f.node):
            if isinstance(x, ast.For):
                iters.append((x, x.iter))
            if isinstance(x, ast.comprehension):
                iters.append((x, x.iter))
        for node, it in iters:
            k = _orderedness(it, ordered, unordered)
            # a comprehension producing a set/dict keyed result from an unordered source is order-insensitive only if the result is a set: not in these functions
            if k == "unknown":
                ctx.unknown("C15.R2", f, it, f"cannot tell whether `{U(it)[:70]}` is an ordered collection (an order-producing function must only iterate ordered sources)")
                continue
            ctx.check(k == "ordered", "C15.R2", f, it, f"iteration over an ordered source `{U(it)[:50]}`",
                      f"`{U(it)[:70]}` iterates a set-like collection inside an order-producing function: the emitted order "
                      "depends on hashing (string hashes change from one process to the next)")
    # tensor sorts are not stable by default: ties (equal keys) come back in an unspecified order
    for fn in ORDER_FUNCS:
        fo = ix.func(DAG, f"{CLS}.{fn}", "C15.R2")
        for c in ast.walk(fo.node):
            if isinstance(c, ast.Call) and ((isinstance(c.func, ast.Attribute) and c.func.attr in ("argsort", "sort", "topk", "unique")) or U(c.func) in ("torch.argsort", "torch.sort", "np.argsort", "torch.unique", "np.unique")):
                recv_is_list = isinstance(c.func, ast.Attribute) and c.func.attr == "sort" and not c.args and not any(k.arg in ("dim", "descending", "stable") for k in c.keywords)
                stable = any(k.arg == "stable" and U(k.value) == "True" for k in c.keywords) or any(k.arg == "kind" and U(k.value) in ("'stable'", "'mergesort'") for k in c.keywords)
                if recv_is_list or stable:
                    continue
                ctx.violation("C15.R2", fo, c, f"`{U(c)[:60]}` is not a stable sort: entries with equal keys come back in an unspecified order, so the emitted order is not a function of the definitions")
    f = ix.func(DAG, f"{CLS}.compute_topological_order_and_path_matrix", "C15.R2")
    q = [st for st in statements(f.node) if isinstance(st, ast.Assign) and isinstance(st.value, ast.Call) and U(st.value.func) in ("SimpleQueue", "Queue", "deque", "collections.deque", "queue.SimpleQueue", "LifoQueue", "list")]
    sets = [st for st in statements(f.node) if isinstance(st, ast.Assign) and U(st.targets[0]).startswith("q_") and isinstance(st.value, (ast.Set, ast.Call)) and U(getattr(st.value, "func", st.value)) in ("set", "frozenset")]
    ctx.check(bool(q) and not sets, "C15.R2", f, q[0] if q else f.node, "work list is a queue (deterministic order)", "the work list of roots is a set: pop order is not deterministic", construct="work list")
    L = Canon(f.node).lines(False, True)
    ok = unify(L, ["?nodes = sorted($1.keys())", "?ix = {?n: ?i for ?i, ?n in enumerate(?nodes)}"]) is not None or unify(L, ["?nodes = sorted($1)", "?ix = {?n: ?i for ?i, ?n in enumerate(?nodes)}"]) is not None
    ctx.check(ok, "C15.R2", f, f.node, "nodes sorted by name first", "the nodes are no longer name-sorted before the traversal", construct="name-sorted nodes")


def _orderedness(e, ordered, unordered) -> str:
    if isinstance(e, ast.Call):
        fn = U(e.func)
        if fn in ("sorted", "range", "enumerate", "zip", "list", "tuple", "reversed") :
            if fn in ("sorted", "range"):
                return "ordered"
            ks = [_orderedness(a, ordered, unordered) for a in e.args]
            return "ordered" if ks and all(k == "ordered" for k in ks) else ("unordered" if "unordered" in ks else "unknown")
        if fn in ("set", "frozenset"):
            return "unordered"
        if fn in ("dict", "defaultdict", "OrderedDict", "collections.defaultdict"):
            return "ordered"  # insertion-ordered: filled inside loops that are themselves checked
        if isinstance(e.func, ast.Attribute):
            base = _orderedness(e.func.value, ordered, unordered)
            if e.func.attr in ("items", "keys", "values"):
                return base
            if e.func.attr in ("nonzero", "squeeze", "tolist", "unique"):
                return "ordered"
            if e.func.attr in ("difference", "union", "intersection"):
                return "unordered"
        return "unknown"
    if isinstance(e, ast.Name):
        return "ordered" if e.id in ordered else ("unordered" if e.id in unordered else "unknown")
    if isinstance(e, ast.Subscript):
        if isinstance(e.value, ast.Name) and (e.value.id + "[]") in unordered:
            return "unordered"
        if isinstance(e.value, ast.Name) and e.value.id in unordered:
            return "unordered"
        b = _orderedness(e.value, ordered, unordered)
        # an element of an ordered dict-of-lists is ordered iff the values were built ordered: handled at assignment (dict comprehension below)
        return b
    if isinstance(e, (ast.List, ast.Tuple, ast.Dict)):
        return "ordered"
    if isinstance(e, (ast.DictComp, ast.ListComp, ast.GeneratorExp)):
        src = _orderedness(e.generators[0].iter, ordered, unordered)
        if isinstance(e, ast.DictComp):
            val = e.value
            vk = "ordered"
            if isinstance(val, ast.Subscript) and isinstance(val.value, ast.Name) and val.value.id in unordered:
                # values are sets (used through len / membership / difference only): the *dict* order is what matters for iteration
                vk = "ordered"
            return src
        return src
    if isinstance(e, ast.Attribute):
        if e.attr in ("sorted_variables_names",):
            return "ordered"
        return "unknown"
    if isinstance(e, (ast.Set, ast.SetComp)):
        return "unordered"
    return "unknown"


def r3_shipped_graphs(ctx):
    from ..specgraph import graphs

    ctx.rule("C15.R3", "graphs of the shipped model kinds are valid inputs (acyclic, closed, no isolated node, no reserved name)", 9)
    ix = ctx.ix
    nv = ix.find_class("NamedVariables")
    forbidden = set()
    for b in ix.classes[nv].body:
        if isinstance(b, (ast.Assign, ast.AnnAssign)) and U(b.targets[0] if isinstance(b, ast.Assign) else b.target) == "FORBIDDEN_NAMES":
            forbidden = {c.value for c in ast.walk(b.value) if isinstance(c, ast.Constant) and isinstance(c.value, str)}
    if not forbidden:
        raise AnalysisError("C15.R3", "anchor vanished: NamedVariables.FORBIDDEN_NAMES")
    for g in graphs(ctx):
        problems = []
        try:
            order = g.topo_order()
        except AnalysisError as e:
            problems.append(str(e))
            order = []
        children = {n: set() for n in g.nodes}
        for n in g.nodes.values():
            for p in n.parents:
                if p not in g.nodes:
                    problems.append(f"{n.name} depends on undeclared {p}")
                else:
                    children[p].add(n.name)
            if n.name in n.parents:
                problems.append(f"{n.name} depends on itself")
        alone = [n for n in g.nodes if not children[n] and not g.nodes[n].parents]
        if alone:
            problems.append(f"isolated variables {alone}")
        bad = sorted(set(g.nodes) & forbidden)
        if bad:
            problems.append(f"reserved names {bad}")
        where = (g.model.cls[0], g.model.cls[1] + ".get_variables_specs")
        ctx.check(not problems, "C15.R3", where, None, f"{g.cfg.name}: {len(g.nodes)} variables, {sum(len(n.parents) for n in g.nodes.values())} edges: valid input of the DAG constructor",
                  f"{g.cfg.name}: " + "; ".join(problems)[:300], construct="declared variable graph", instance=g.cfg.name)


def r4_orientation(ctx, rid="C15.R4"):
    from ..astq import Canon

    ctx.rule(rid, "path matrix written [parent, child], children read from rows, ancestors from columns, in the emitted order", 5)
    ix = ctx.ix
    f = ix.func(DAG, f"{CLS}.compute_topological_order_and_path_matrix", rid)
    loops = [x for x in ast.walk(f.node) if isinstance(x, ast.While)]
    if len(loops) != 1:
        raise AnalysisError(rid, "anchor vanished: the traversal loop of compute_topological_order_and_path_matrix")
    w = loops[0]
    inner = [x for x in ast.walk(w) if isinstance(x, ast.For)]
    if len(inner) != 1:
        raise AnalysisError(rid, "anchor vanished: loop over the children of the popped node")
    fl = inner[0]
    # index variables: X = <index map>[<name>]
    idx_of = {}
    for st in ast.walk(w):
        if isinstance(st, ast.Assign) and isinstance(st.targets[0], ast.Name) and isinstance(st.value, ast.Subscript) and isinstance(st.value.slice, ast.Name):
            idx_of[st.targets[0].id] = st.value.slice.id
    popped = [st.targets[0].id for st in w.body if isinstance(st, ast.Assign) and isinstance(st.value, ast.Call) and isinstance(st.value.func, ast.Attribute) and st.value.func.attr in ("get", "popleft", "pop")]
    child = fl.target.id if isinstance(fl.target, ast.Name) else None
    ctx.anchor(bool(popped) and child is not None and "direct_children" in U(fl.iter) and U(fl.iter).endswith(f"[{popped[0]}]"), rid, f, fl, "inner loop ranges over the direct children of the popped node",
               "loop over the children of the popped node")
    pm = None
    prop = []  # (statement, target subscript, the other operand)
    for s_ in ast.walk(fl):
        if isinstance(s_, ast.AugAssign) and isinstance(s_.op, ast.BitOr) and isinstance(s_.target, ast.Subscript):
            prop.append((s_, s_.target, s_.value))
        elif isinstance(s_, ast.Assign) and isinstance(s_.targets[0], ast.Subscript):
            v_ = s_.value
            ops = None
            if isinstance(v_, ast.BinOp) and isinstance(v_.op, ast.BitOr):
                ops = (v_.left, v_.right)
            elif isinstance(v_, ast.Call) and U(v_.func) == "torch.logical_or" and len(v_.args) == 2:
                ops = tuple(v_.args)
            if ops:
                tt = U(s_.targets[0])
                other = [o for o in ops if U(o) != tt]
                if len(other) == 1 and any(U(o) == tt for o in ops):
                    prop.append((s_, s_.targets[0], other[0]))
    if not prop:
        # another way to the closure: repeated squaring of the (re-ordered) adjacency matrix after the traversal, `for _ in range(E): M = M | (M @ M > 0)`
        sq = [lp for lp in ast.walk(f.node) if isinstance(lp, ast.For) and lp is not fl and not any(x is lp for x in ast.walk(fl)) and isinstance(lp.iter, ast.Call) and U(lp.iter.func) == "range"
              and len(lp.iter.args) == 1 and any(isinstance(x, ast.BinOp) and isinstance(x.op, ast.MatMult) and U(x.left) == U(x.right) for x in ast.walk(lp))]
        if sq:
            import math as _math
            rounds_expr = sq[0].iter.args[0]
            names = sorted({x.id for x in ast.walk(rounds_expr) if isinstance(x, ast.Name)})
            short = None
            undecided = len(names) != 1
            if not undecided:
                for n_ in range(2, 70):
                    try:
                        k_ = eval(compile(ast.Expression(rounds_expr), "<rounds>", "eval"), {"__builtins__": {}, "math": _math, "len": len, "int": int, "max": max, "min": min}, {names[0]: n_})
                    except Exception:
                        undecided = True
                        break
                    if 2 ** int(k_) < n_ - 1:
                        short = (n_, int(k_))
                        break
            if undecided:
                ctx.unknown(rid, f, sq[0], f"the closure is computed by repeated squaring with `{U(rounds_expr)[:60]}` rounds, which cannot be evaluated on sizes", construct="closure by repeated squaring")
            elif short:
                ctx.violation(rid, f, sq[0], f"the closure is computed by {U(rounds_expr)[:50]} rounds of squaring: for {short[0]} variables that is {short[1]} round(s), i.e. paths of at most {2 ** short[1]} edges, "
                              f"while a chain of {short[0]} variables has a path of {short[0] - 1}: the transitive children / ancestors of long, thin graphs are incomplete", construct="closure by repeated squaring")
            else:
                ctx.ok(rid, f, sq[0], f"closure by repeated squaring: {U(rounds_expr)[:50]} rounds cover paths of n - 1 edges for every n = 2 .. 69", construct="closure by repeated squaring")
        else:
            ctx.violation(rid, f, fl, "the ancestors of a node are never propagated to its children (no `|=` on the path matrix inside the traversal): transitive closures lose every indirect link")
    for s_, t, v in prop:
        pm = U(t.value)

        def col(e):
            return isinstance(e, ast.Subscript) and isinstance(e.slice, ast.Tuple) and len(e.slice.elts) == 2 and isinstance(e.slice.elts[0], ast.Slice) and isinstance(e.slice.elts[1], ast.Name)
        if col(t) and col(v) and U(v.value) == pm:
            tj, vi = t.slice.elts[1].id, v.slice.elts[1].id
            good = idx_of.get(tj) == child and popped and idx_of.get(vi) == popped[0]
            ctx.check(good, rid, f, s_, "column of the child |= column of its parent (ancestors inherited)",
                      f"`{U(s_)}`: the column written is that of `{idx_of.get(tj)}` and the one read that of `{idx_of.get(vi)}` - ancestors must flow from the popped node to its child")
        else:
            ctx.unknown(rid, f, s_, "propagation statement is not of the column-wise form `M[:, child] |= M[:, parent]`")
    def _node_of(e):
        """the graph node whose index `e` is: a name bound to `ix[node]`, or `ix[node]` itself"""
        if isinstance(e, ast.Name):
            return idx_of.get(e.id)
        if isinstance(e, ast.Subscript) and isinstance(e.slice, ast.Name):
            return e.slice.id
        return None
    edges = [s_ for s_ in ast.walk(fl) if isinstance(s_, ast.Assign) and isinstance(s_.targets[0], ast.Subscript) and U(s_.value) == "True" and isinstance(s_.targets[0].slice, ast.Tuple)
             and len(s_.targets[0].slice.elts) == 2 and all(isinstance(e, (ast.Name, ast.Subscript)) for e in s_.targets[0].slice.elts)]
    if not edges:
        ctx.violation(rid, f, fl, "the direct edge parent -> child is never written into the path matrix")
    for s_ in edges:
        r_, c_ = s_.targets[0].slice.elts
        good = popped and _node_of(r_) == popped[0] and _node_of(c_) == child
        idx_of_ = {U(r_): _node_of(r_), U(c_): _node_of(c_)}
        ctx.check(good, rid, f, s_, "direct edge written at [parent, child]", f"`{U(s_)}` writes the edge at [{_node_of(r_)}, {_node_of(c_)}], not [parent, child]: rows would hold ancestors, columns descendants")
    L = Canon(f.node).lines(False, True)
    ok = unify(L, ["?sn += (?n,)", "?ix = [?idx[?m] for ?m in ?sn]", "?pm = ?pm[?ix, :][:, ?ix]", "return (?sn, ?pm)"]) is not None
    ctx.anchor(ok, rid, f, f.node, "rows and columns permuted into the emitted order", "re-indexing of the path matrix into the emitted order", construct="re-indexing")
    def emptiness(cond, coll):
        """does the test text `cond` hold exactly when the collection `coll` is empty?  True / False / None (not a test on its size)"""
        import re as _re
        c = cond.strip()
        sizes = (0, 1, 2, 3)
        try:
            e = ast.parse(c, mode="eval").body
        except SyntaxError:
            return None
        from ..normalform import eval_guard, GuardUnsupported
        out = []
        for k in sizes:
            try:
                def hook(call):
                    if U(call.func) == "len" and len(call.args) == 1 and U(call.args[0]) == coll:
                        return k
                    if U(call.func) == "bool" and len(call.args) == 1 and U(call.args[0]) == coll:
                        return k > 0
                    return NotImplemented
                v = eval_guard(e, {coll: k > 0} if isinstance(e, (ast.UnaryOp, ast.Name)) else {}, hook)
            except (GuardUnsupported, TypeError):
                return None
            out.append(bool(v))
        return out == [k == 0 for k in sizes]

    # a node is emitted once its last direct ancestor was: the queue is seeded with the nodes without ancestors, and fed when the remaining set gets empty
    def cond_after(b, i_key, put):
        """the test on the line following line `i_key`, when the line after it is the expected `put`"""
        i = b[i_key]
        if i + 2 < len(L) and L[i + 1].startswith("if ") and L[i + 2] == put:
            return L[i + 1][3:]
        return None

    b1 = unify(L, ["?n = ?q.get()", "?da[?c] = ?da[?c].difference({?n})"])
    if b1 is not None:
        b1["cond"] = cond_after(b1, "#1", f"{b1['q']}.put({b1['c']})")
    v1 = emptiness(b1["cond"].replace(b1["da"] + "[" + b1["c"] + "]", "S"), "S") if b1 is not None and b1["cond"] else None
    if v1 is False:
        ctx.violation(rid, f, f.node, f"a child is queued when `{b1['cond']}` (source names: remaining direct ancestors): not exactly when its last direct ancestor has been emitted - "
                      "nodes are emitted before an ancestor, or never", construct="Kahn condition")
    else:
        ctx.anchor(v1 is True, rid, f, f.node, "a node is emitted only once all its direct ancestors were", "Kahn condition (remaining ancestors == 0)", construct="Kahn condition")
    b0 = unify(L, ["for (?da.items(), (?n, ?s))", "?n = ?q.get()"])
    if b0 is not None:
        b0["cond"] = cond_after(b0, "#0", f"{b0['q']}.put({b0['n']})")
    v0 = emptiness(b0["cond"].replace(b0["s"], "S"), "S") if b0 is not None and b0["cond"] else None
    if v0 is False:
        ctx.violation(rid, f, f.node, f"the work list is seeded with the nodes for which `{b0['cond']}` (canonical names): not exactly the nodes without direct ancestor", construct="Kahn seeding")
    else:
        ctx.anchor(v0 is True, rid, f, f.node, "the work list starts from exactly the nodes without direct ancestor", "seeding of the work list (no direct ancestor)", construct="Kahn seeding")
    g = ix.func(DAG, f"{CLS}.compute_sorted_children_and_ancestors", rid)
    a = g.node.args.args
    pmn = a[1].arg if len(a) > 1 else "path_matrix"
    sn = a[0].arg
    rets = [s_ for s_ in statements(g.node) if isinstance(s_, ast.Return)]
    comps = {U(st.targets[0]): st.value for st in statements(g.node) if isinstance(st, ast.Assign) and isinstance(st.value, ast.DictComp)}
    order = []
    for i_, e in enumerate(rets[0].value.elts if rets and isinstance(rets[0].value, ast.Tuple) else []):
        if isinstance(e, ast.DictComp):  # returned directly
            comps[f"<ret{i_}>"] = e
            order.append(f"<ret{i_}>")
        else:
            order.append(U(e))
    if len(order) != 2 or any(o not in comps for o in order):
        ctx.unknown(rid, g, g.node, "compute_sorted_children_and_ancestors no longer returns two dictionary comprehensions")
    else:
        for pos, (what, want_axis) in enumerate((("children", 0), ("ancestors", 1))):
            dc = comps[order[pos]]
            gen = dc.generators[0]
            idxv = gen.target.elts[0].id if isinstance(gen.target, ast.Tuple) and isinstance(gen.target.elts[0], ast.Name) else None
            subs = [x for x in ast.walk(dc.value) if isinstance(x, ast.Subscript) and U(x.value) == pmn and isinstance(x.slice, ast.Tuple) and len(x.slice.elts) == 2]
            if idxv is None or len(subs) != 1 or U(gen.iter) != f"enumerate({sn})":
                ctx.unknown(rid, g, dc, f"{what}: unrecognised reader form")
                continue
            axis = 0 if U(subs[0].slice.elts[0]) == idxv else (1 if U(subs[0].slice.elts[1]) == idxv else None)
            ctx.check(axis == want_axis and f"{sn}[" in U(dc.value), rid, g, dc, f"{what} of a node = its {'row' if want_axis == 0 else 'column'} of the path matrix, listed in the emitted order",
                      f"{what} are read from the {'column' if axis == 1 else 'row'} of the node: with edges written at [parent, child] that yields the {'ancestors' if what == 'children' else 'descendants'} instead")


def r5_proxy(ctx):
    """sorted_variables_by_type hands out FilteredMappingProxy views of the graph: a view lists exactly the names it was given (membership
    tests of the underlying collection - e.g. UserDict.__contains__ of NamedVariables, which ignores the automatic variables - have no say)."""
    ctx.rule("C15.R5", "FilteredMappingProxy iterates exactly its subset (per-type listings = the graph's variables of that type)", 2)
    from ..astq import canon_lines
    it = ctx.ix.func("leaspy.utils.filtered_mapping_proxy", "FilteredMappingProxy.__iter__", "C15.R5")
    ln = ctx.ix.func("leaspy.utils.filtered_mapping_proxy", "FilteredMappingProxy.__len__", "C15.R5")
    ok_it = canon_lines(it.node) in (["return iter($0.subset)"], ["yield from $0.subset"])
    ok_ln = canon_lines(ln.node) == ["return len($0.subset)"]
    ctx.check(ok_it, "C15.R5", it, it.node, "iterates the subset it was given", f"FilteredMappingProxy.__iter__ is `{'; '.join(canon_lines(it.node))[:90]}`: the per-type listing can drop (or reorder) variables of the graph")
    # ... in the order it was given (the graph hands it the names in topological order): no method of the proxy re-binds `subset` to a re-ordered copy
    cls_ = ctx.ix.classes.get(("leaspy.utils.filtered_mapping_proxy", "FilteredMappingProxy"))
    reord = []
    for b in (cls_.body if cls_ is not None else []):
        if not isinstance(b, ast.FunctionDef):
            continue
        for c in ast.walk(b):
            val = None
            if isinstance(c, ast.Call) and U(c.func) in ("object.__setattr__", "setattr") and len(c.args) == 3 and U(c.args[1]) == "'subset'":
                val = c.args[2]
            if isinstance(c, ast.Assign) and any(U(t) == "self.subset" for t in c.targets):
                val = c.value
            if val is not None and any(isinstance(x, ast.Call) and (U(x.func) in ("sorted", "reversed", "set", "frozenset") or (isinstance(x.func, ast.Attribute) and x.func.attr in ("sort", "reverse"))) for x in ast.walk(val)):
                reord.append(c)
    ctx.check(not reord, "C15.R5", it, reord[0] if reord else it.node, "the subset is kept in the order it was given",
              f"`{U(reord[0])[:60] if reord else ''}` re-orders the names the proxy was given: the per-type listings no longer follow the topological order (a derived variable can be listed before one it depends on)",
              construct="subset order kept")
    ctx.check(ok_ln, "C15.R5", ln, ln.node, "length of the subset", f"FilteredMappingProxy.__len__ is `{'; '.join(canon_lines(ln.node))[:90]}`: not the number of names it was given", construct="__len__")


def r7_definitions_left_untouched(ctx):
    """The ordering consumes edges from a *copy* of the declared ancestors; the copy is shallow ({n: direct_ancestors[n] ...}), so its values are
    the caller's own sets: they may be replaced (`d[m] = d[m].difference(..)`) but never changed in place (`d[m] -= ..`, `.discard(..)`) - the
    closures are read back from them, and the definitions handed in would be emptied."""
    ctx.rule("C15.R7", "the declared edge sets are never modified in place by the ordering functions", 1)
    MUT = {"add", "discard", "remove", "pop", "clear", "update", "difference_update", "intersection_update", "symmetric_difference_update", "append", "extend", "insert", "sort"}
    n = 0
    for b in ctx.ix.classes[(DAG, CLS)].body:
        if not isinstance(b, ast.FunctionDef):
            continue
        f = ctx.ix.funcs[(DAG, f"{CLS}.{b.name}")]
        params = {a.arg for a in b.args.args + b.args.kwonlyargs if a.arg not in ("self", "cls")} | {"self.direct_ancestors", "self.variables"}
        shallow = set(params)
        for _ in range(3):
            for st in ast.walk(b):
                if isinstance(st, ast.Assign) and len(st.targets) == 1 and isinstance(st.targets[0], ast.Name):
                    v = st.value
                    vals = [v.value] if isinstance(v, ast.DictComp) else []
                    if isinstance(v, ast.Call) and U(v.func) in ("dict", "copy.copy") and v.args:
                        vals = [v.args[0]]
                    for x in vals:
                        base = x
                        while isinstance(base, ast.Subscript):
                            base = base.value
                        if U(base) in shallow:
                            shallow.add(st.targets[0].id)
        for st in ast.walk(b):
            tgt = None
            if isinstance(st, ast.AugAssign) and isinstance(st.target, ast.Subscript) and U(st.target.value) in shallow:
                tgt = st
            elif isinstance(st, ast.Call) and isinstance(st.func, ast.Attribute) and st.func.attr in MUT and isinstance(st.func.value, ast.Subscript) and U(st.func.value.value) in shallow:
                tgt = st
            if tgt is not None:
                n += 1
                ctx.violation("C15.R7", f, tgt, f"`{U(tgt)[:70]}` changes in place a set that still belongs to the caller's definitions (the local mapping is a shallow copy): the declared "
                              "ancestors are emptied while they are consumed, so whatever is read from them afterwards - and the caller's own objects - are wrong")
    ctx.ok("C15.R7", (DAG, CLS), None, "no in-place set operation on the declared edges", construct="declared edges")


def r6_edges_from_every_definition(ctx):
    """`from_dict` derives the edges from the definitions: every variable, whatever its kind, is asked for the names it depends on."""
    from ..astq import canon_lines
    ctx.rule("C15.R6", "from_dict: the edge map is {name: definition.get_ancestors_names()} for every entry, unconditionally", 1)
    f = ctx.ix.func(DAG, f"{CLS}.from_dict", "C15.R6")
    import re as _re
    rets = [ln for ln in canon_lines(f.node, True, True) if ln.startswith("return ")]
    text = "; ".join(rets)
    ok = len(rets) == 1 and _re.fullmatch(r"return \$0\((variables=)?\$1, direct_ancestors=\{(%\d+): (%\d+)\.get_ancestors_names\(\) for \2, \3 in \$1\.items\(\)\}\)", rets[0]) is not None
    confirmed = {text} if ok else set()
    ctx.form("C15.R6", f, f.node, text, confirmed, [".get_ancestors_names()", "$1.items()"], "every definition contributes its own dependencies",
             "from_dict no longer takes the dependencies of every definition from `get_ancestors_names()`: a variable whose declared dependencies are left out is treated as a root "
             "(emitted before what it depends on, missing from the closures, its unknown / cyclic references accepted)",
             forbidden=[r"get_ancestors_names\(\) if ", r" if isinstance\(", r"\bfor\b[^{}]*\bif\b"], construct="edges from the definitions")


def r10_listing_protocol(ctx):
    """'lists variables so that none appears before one it depends on': the graph object is a `Mapping` whose `__iter__` follows the computed
    order, and `keys()` / `values()` / `items()` are the ones `Mapping` derives from it - an override returning a view of the definitions
    lists the variables in the order they were written."""
    ctx.rule("C15.R10", "VariablesDAG lists its variables through `__iter__` over the computed order only (keys / values / items not overridden)", 2)
    key = ("leaspy.variables.dag", "VariablesDAG")
    cls = ctx.ix.classes.get(key)
    if cls is None:
        raise AnalysisError("C15.R10", "anchor vanished: VariablesDAG")
    over = [b for b in cls.body if isinstance(b, ast.FunctionDef) and b.name in ("keys", "values", "items", "__reversed__", "__contains__", "get")]
    where = ("leaspy.variables.dag", "VariablesDAG.__iter__")
    for b in over:
        reads_order = "sorted_variables_names" in ast.unparse(b) or "self[" in ast.unparse(b) or "iter(self)" in ast.unparse(b)
        if b.name in ("__contains__", "get") or reads_order:
            ctx.ok("C15.R10", ("leaspy.variables.dag", f"VariablesDAG.{b.name}"), b, f"`{b.name}` overridden, but it follows the computed order / does not list", construct=f"override of {b.name}")
        else:
            ctx.violation("C15.R10", ("leaspy.variables.dag", f"VariablesDAG.{b.name}"), b, f"`VariablesDAG.{b.name}` is overridden and returns `{ast.unparse(b.body[-1])[:60]}`: the listing follows the order "
                          "in which the definitions were written, not the topological order - a variable can be listed before one it depends on", construct=f"override of {b.name}")
    it = ctx.ix.func("leaspy.variables.dag", "VariablesDAG.__iter__", "C15.R10")
    from ..astq import canon_lines
    L = canon_lines(it.node, True, True)
    ctx.form("C15.R10", it, it.node, "; ".join(L), {"return iter($0.sorted_variables_names)"}, ["sorted_variables_names"], "__iter__ follows the computed order",
             "`VariablesDAG.__iter__` no longer iterates over `sorted_variables_names`", construct="__iter__ over the computed order")
    if not over:
        ctx.ok("C15.R10", where, None, "keys / values / items are the ones `Mapping` derives from `__iter__`", construct="no override of the listing methods")


def rules(ctx):
    r6_edges_from_every_definition(ctx)
    r7_definitions_left_untouched(ctx)
    r1_validators(ctx)
    r2_determinism(ctx)
    r3_shipped_graphs(ctx)
    r4_orientation(ctx)
    r5_proxy(ctx)
    r10_listing_protocol(ctx)
    # "invalid definitions are refused": every submission is judged on its own - nothing computed for one graph (a memo of orders / path
    # matrices filled before the refusal) is served to a later submission of the same definitions (same rule as C13.R5 / C01.R9)
    from ._shared import named_parameters_form
    named_parameters_form(ctx, "C15.R9", "the edges of the graph are the declared inputs of each definition - an input that is left out is a missing edge, so the transitive dependents and "
                          "ancestors listed for it are wrong")
    from .c13 import r5_shared_defaults
    r5_shared_defaults(ctx, rid="C15.R8", scope="leaspy.variables.dag", title="no module-level / class-level memo in the graph construction (each submission is checked on its own)")
    ctx.trust("sorted() on strings; SimpleQueue FIFO; torch boolean indexing / nonzero order")
    ctx.note("NamedVariables._latent_ind_vars is a set: the order of the float sum in nll_regul_ind_sum_ind may differ between processes (hash seed) - outside this property's statement")


D = "src/leaspy/variables/dag.py"
VARIANTS = [
    V("no-left-alone-check", D, "        self._raise_if_left_alone_nodes(children, self.direct_ancestors)\n", "", "C15.R1"),
    V("no-edge-check", D, "        self._raise_if_bad_nodes_in_edges(\n            self.direct_ancestors, nodes, what=\"ancestors\"\n        )\n", "", "C15.R1"),
    V("self-loops-tolerated", D, "        if len(self_loops):\n", "        if False:\n", "C15.R1"),
    V("unsorted-nodes", D, "        nodes = sorted(direct_ancestors.keys())\n", "        nodes = list(direct_ancestors.keys())\n", "C15.R2"),
    V("children-unsorted", D, "direct_children_ = {n: sorted(direct_children[n]) for n in nodes}", "direct_children_ = {n: direct_children[n] for n in nodes}", "C15.R2"),
    V("rows-columns-swapped", D, "for j in path_matrix[idx_node, :]", "for j in path_matrix[:, idx_node]", "C15.R4"),
    V("no-closure-propagation", D, "                path_matrix[:, j] |= path_matrix[:, i]\n", "", "C15.R4"),
    V("edge-transposed", D, "                path_matrix[i, j] = True\n", "                path_matrix[j, i] = True\n", "C15.R4"),
    V("silent-rename-indices", D, "path_matrix[:, j] |= path_matrix[:, i]", "path_matrix[:, j] = path_matrix[:, j] | path_matrix[:, i]", None),
    V("reserved-name-used", "src/leaspy/models/logistic.py", "            g=LinkedVariable(Exp(\"log_g\")),", "            g=LinkedVariable(Exp(\"log_g\")),\n            lonely=Hyperparameter(1.0),", "C15.R3"),
    V("silent-rename-sorted-nodes", D, "sorted_nodes", "order", None, count=16),
]
