"""C13 - estimate, personalize and simulate leave the model and caller inputs untouched."""
from __future__ import annotations

import ast

from ..astq import U, statements, store_targets
from ..cfg import CFG, header_walk
from ..effects import STATE_WRITE_VALUE_METHODS
from ..index import AnalysisError, root_name, walk_no_nested
from ..selftest import V
from ._shared import callgraph, state_writes

PROP = "C13"
LEVEL_TEXT = (
    "Static typestate / effect analysis: (R1) every assignment of the model's state outside its first initialisation assigns an object that, on every path, "
    "was obtained from .clone( and then cleaned with reset_data_variables(...) and put_individual_latent_variables(None) - so neither the fit nor a "
    "personalisation leaves data or individual latent values in the model; (R2) on the paths of estimate, the trajectory computations, scipy_minimize, simulate, "
    "LME and constant personalisation no function writes (directly, or by handing it to a callee that writes through that parameter) to an expression aliasing the "
    "live state - they work on clones; (R3) the sampling-based personalisation writes the live state only through data / individual-latent writers and its cleaning "
    "step post-dominates the sampling; (R4) algorithms never store through the caller's settings, dataset or data objects (package-wide scan of stores rooted at "
    "parameters of those types; device moves are restored in a finally). NOT decided: exceptions raised mid-run (no try/finally around the sampling-based "
    "personalisation - reported as information), numerical equality of repeated calls."
)

SETTER_OK = {("leaspy.models.stateful", "StatefulModel._initialize_state"), ("leaspy.models.stateful", "StatefulModel.__init__"), ("leaspy.models.stateful", "StatefulModel.state")}


def _is_model_state_target(t: ast.AST) -> bool:
    return isinstance(t, ast.Attribute) and t.attr in ("state", "_state") and isinstance(t.value, ast.Name) and t.value.id in ("model", "self")


def r1_typestate(ctx, rid="C13.R1", title="the state assigned to a model is a cleaned clone (no data, no individual latent values)"):
    ctx.rule(rid, title, 2)
    ix = ctx.ix
    stateful = ix.find_class("StatefulModel")
    n = 0
    for f in ix.iter_funcs():
        if f.key in SETTER_OK:
            continue
        for st in statements(f.node):
            if not isinstance(st, ast.Assign):
                continue
            for t in st.targets:
                if not _is_model_state_target(t):
                    continue
                if t.value.id == "self" and (f.cls is None or stateful not in ix.mro(f.cls)):
                    continue
                n += 1
                cfg = CFG(f.node)
                an = cfg.node_of(st)
                v = st.value
                if not isinstance(v, ast.Name):
                    ctx.violation(rid, f, st, f"the model state is assigned `{U(v)}` - not a local clone that was cleaned")
                    continue
                var = v.id
                clones = [k for k in cfg.nodes(lambda s: isinstance(s, ast.Assign) and any(U(x) == var for x in s.targets)
                                               and isinstance(s.value, ast.Call) and isinstance(s.value.func, ast.Attribute) and s.value.func.attr == "clone")]
                others = [k for k in cfg.nodes(lambda s: isinstance(s, (ast.Assign, ast.AugAssign, ast.AnnAssign)) and any(U(x) == var for x in store_targets(s))) if k not in clones]
                if not clones or others or not all(cfg.dominates(c, an) for c in clones[:1]):
                    ctx.violation(rid, f, st, f"`{var}` assigned to the model state is not (only) the result of a `.clone(` that dominates the assignment: "
                                  "the model would share / keep the working state of the run")
                    continue
                cl = clones[0]
                # the state the model keeps is one of its own kind: a clone with the snapshotting switched off (`disable_auto_fork=True`) makes the
                # samplers of a later personalisation / fit on this object unable to undo a rejected proposal - the saved-and-reloaded model can
                clc = cfg.stmt[cl].value
                off = [k_ for k_ in clc.keywords if k_.arg == "disable_auto_fork" and not (isinstance(k_.value, ast.Constant) and k_.value.value is False)] + \
                    [a_ for a_ in clc.args[:1] if not (isinstance(a_, ast.Constant) and a_.value is False)]
                ctx.check(not off, rid, f, cfg.stmt[cl], f"`{var}` is a plain clone (snapshotting kept as in a freshly loaded model)",
                          f"`{U(cfg.stmt[cl])[:70]}`: the state the model keeps has its snapshotting switched off, unlike the state of the same model once saved and reloaded - a later sampling-based "
                          "call on this object cannot undo rejected proposals, so its result depends on the object's history", construct=f"{var}: snapshotting kept")

                def calls(pred):
                    out = []
                    for k, s in cfg.stmt.items():
                        if s is None:
                            continue
                        for x in header_walk(s):
                            if isinstance(x, ast.Call) and pred(x):
                                out.append(k)
                    return out
                reset = calls(lambda x: isinstance(x.func, ast.Attribute) and x.func.attr == "reset_data_variables" and x.args and U(x.args[0]) == var)
                unset = calls(lambda x: U(x.func) == f"{var}.put_individual_latent_variables" and ((x.args and U(x.args[0]) == "None") or (not x.args and not x.keywords)
                                                                                                  or any(k.arg == "method" and U(k.value) == "None" for k in x.keywords)))
                r_ok = any(cfg.dominates(cl, r) and cfg.dominates(r, an) for r in reset)
                u_ok = any(cfg.dominates(cl, u) and cfg.dominates(u, an) for u in unset)
                ctx.check(r_ok, rid, f, st, f"`{var}` = clone, data variables reset before it becomes the model state",
                          f"the state `{var}` handed to the model still holds the data of the run (no `reset_data_variables({var})` between the clone and the assignment): "
                          "later calls on the same model object depend on this run", construct=f"{U(t)} = {var} [data]")
                ctx.check(u_ok, rid, f, st, f"`{var}`: individual latent variables unset before it becomes the model state",
                          f"the state `{var}` handed to the model still holds the individual latent values of the run (no `{var}.put_individual_latent_variables(None)`): "
                          "e.g. a later scipy_minimize starts every subject from the first training subject's values", construct=f"{U(t)} = {var} [individual latents]")
    if n < 2:
        raise AnalysisError(rid, f"only {n} assignment(s) of a model state found outside initialisation (2 confirmed by hand: end of fit, end of MCMC personalisation)")


CLONE_ONLY_ENTRIES = [
    ("leaspy.models.base", "BaseModel.estimate"),
    ("leaspy.models.mcmc_saem_compatible", "McmcSaemCompatibleModel.compute_individual_trajectory"),
    ("leaspy.models.mcmc_saem_compatible", "McmcSaemCompatibleModel.compute_prior_trajectory"),
    ("leaspy.models.joint", "JointModel.compute_individual_trajectory"),
    ("leaspy.algo.personalize.scipy_minimize", "ScipyMinimizeAlgorithm._compute_individual_parameters"),
    ("leaspy.algo.simulate.base", "BaseSimulationAlgorithm._run"),
    ("leaspy.algo.personalize.lme_personalize", "LMEPersonalizeAlgorithm._compute_individual_parameters"),
    ("leaspy.algo.personalize.constant_prediction_algo", "ConstantPredictionAlgorithm._compute_individual_parameters"),
    ("leaspy.models.lme", "LMEModel.compute_individual_trajectory"),
    ("leaspy.models.constant", "ConstantModel.compute_individual_trajectory"),
    ("leaspy.models.base", "BaseModel.save"),
    ("leaspy.models.base", "BaseModel.to_dict"),
]


def r2_clone_only(ctx, cg, sw):
    ctx.rule("C13.R2", "estimate / trajectory / scipy_minimize / simulate / LME / constant paths never write the live state", 8)
    for mod, qual in CLONE_ONLY_ENTRIES:
        f = ctx.ix.try_func(mod, qual)
        if f is None:
            raise AnalysisError("C13.R2", f"anchor vanished: {qual}")
        entries = [f] + [g for g in ctx.ix.overrides(f.cls, f.name) if g.key != f.key]
        seen = cg.reach(entries)
        bad = 0
        for k in seen:
            g = ctx.ix.funcs[k]
            for node, desc in sw.live_writes(g):
                bad += 1
                ctx.violation("C13.R2", g, node, f"{desc} - reached from {qual} ({' -> '.join(cg.path_to(seen, k)[-4:])})")
        # works on a clone: the entry (or a callee) clones the state when it needs one
        if not bad:
            ctx.ok("C13.R2", f, f.node, f"{len(seen)} reachable functions: every state write goes to a clone / a caller-owned working state", construct=f"def {f.name}")
    # each scipy job state is a clone filled from the model state (never the live one)
    f = ctx.ix.func("leaspy.algo.personalize.scipy_minimize", "ScipyMinimizeAlgorithm._compute_individual_parameters", "C13.R2")
    stores = [st for st in ast.walk(f.node) if isinstance(st, ast.Assign) and isinstance(st.targets[0], ast.Subscript) and isinstance(st.targets[0].value, ast.Name)
              and (sw.cg.expr_type(st.value, f, sw.types(f)) == sw.state_cls or (isinstance(st.value, ast.Name) and sw.provenance(f).get(st.value.id)))]
    if not stores:
        ctx.unknown("C13.R2", f, f.node, "cannot find the container of per-subject working states in scipy_minimize", construct="per-subject states")
    containers = {U(st.targets[0].value) for st in stores}
    for st in stores:
        v = st.value
        is_clone = isinstance(v, ast.Call) and isinstance(v.func, ast.Attribute) and v.func.attr == "clone"
        ctx.check(is_clone, "C13.R2", f, st, "per-subject working state is a clone", f"per-subject working state is `{U(v)}`, not a clone of the model state: every subject's optimisation writes the live model state")
    for c in ast.walk(f.node):
        if isinstance(c, ast.Call) and isinstance(c.func, ast.Attribute) and c.func.attr in ("put_data_variables", "put_individual_parameters", "reset_data_variables"):
            a0 = c.args[0] if c.args else None
            good = isinstance(a0, ast.Subscript) and U(a0.value) in containers
            ctx.check(good, "C13.R2", f, c, "writes a per-subject clone", f"`{U(c.func)}` is applied to `{U(a0) if a0 is not None else ''}` - not one of the per-subject clones - in scipy_minimize")


def r3_mcmc_personalize(ctx, cg, sw):
    ctx.rule("C13.R3", "MCMC personalisation: live-state writes limited to data / individual latents, cleaning post-dominates sampling", 3)
    ix = ctx.ix
    MOD = "leaspy.algo.personalize.mcmc"
    run = ix.func(MOD, "McmcPersonalizeAlgorithm._get_individual_parameters", "C13.R3")
    cfg = CFG(run.node)
    term = [n for n, st in cfg.stmt.items() if st is not None and any(isinstance(x, ast.Call) and U(x.func) == "self._terminate_algo" for x in header_walk(st))]
    init = [n for n, st in cfg.stmt.items() if st is not None and any(isinstance(x, ast.Call) and U(x.func) == "self._initialize_algo" for x in header_walk(st))]
    if not init:
        raise AnalysisError("C13.R3", "anchor vanished: self._initialize_algo in MCMC personalisation")
    ok = bool(term) and cfg.all_paths_pass(init[0], term)
    ctx.check(ok, "C13.R3", run, cfg.stmt[term[0]] if term else run.node, "_terminate_algo on every normal path after _initialize_algo",
              "a normal path of the sampling-based personalisation returns without cleaning the model state (data and individual latent values stay in the model)")
    # what the region writes to the live state
    seen = cg.reach([run])
    allowed_callers = {"put_data_variables", "_put_data_timepoints", "reset_data_variables", "put_individual_latent_variables", "sample", "revert", "put"}
    for k in seen:
        g = ix.funcs[k]
        for node, desc in sw.live_writes(g):
            txt = U(node.func) if isinstance(node, ast.Call) else U(node)
            meth = node.func.attr if isinstance(node, ast.Call) and isinstance(node.func, ast.Attribute) else ""
            good = meth in allowed_callers
            ctx.check(good, "C13.R3", g, node, f"live-state write through `{meth}` (data / individual latent values only)",
                      f"sampling-based personalisation {desc} through `{txt}`: population values / parameters of the model may change")
    # no parameter update / population write in the region
    for k in seen:
        g = ix.funcs[k]
        for c in ast.walk(g.node):
            if isinstance(c, ast.Call) and isinstance(c.func, ast.Attribute) and c.func.attr in ("update_parameters", "put_population_latent_variables", "load_parameters") \
                    and g.mod.startswith("leaspy.algo.personalize"):
                ctx.violation("C13.R3", g, c, f"personalisation calls `{U(c.func)}`: it changes the model's parameters / population variables")
    # only individual latent variables are sampled: the sampler is picked by a name ranging over the individual variables
    from ..astq import Inliner
    inl = Inliner(run.node)
    for c in ast.walk(run.node):
        if isinstance(c, ast.Call) and isinstance(c.func, ast.Attribute) and c.func.attr == "sample" and isinstance(c.func.value, ast.Subscript) \
                and U(c.func.value.value) == "self.samplers":
            idx = c.func.value.slice
            loops = [l for l in ast.walk(run.node) if isinstance(l, ast.For) and U(l.target) == U(idx) and any(x is c for x in ast.walk(l))]
            src = inl.text(loops[0].iter) if loops else ""
            ctx.check("sorted_variables_by_type[IndividualLatentVariable]" in src, "C13.R3", run, c, "samplers are picked among the individual latent variables only",
                      f"personalisation samples variables ranging over `{src}`: population variables of the model could be re-sampled", construct="which variables are sampled")
    ctx.note("no try/finally around the sampling-based personalisation: an exception raised mid-run leaves data and individual latent values in the model (not part of the statement as given)")


def r3b_after_cleaning(ctx, sw, rid="C13.R3b", why="the model keeps that cohort's data and individual values after the call: a later call on the same model starts from them"):
    """After the sampling-based personalisation has cleaned the model's state, what it still computes (the final likelihood terms) is
    evaluated on a *clone*: the wrapper `_compute_individual_parameters` writes no live state."""
    ctx.rule(rid, "MCMC personalisation: after the cleaning, data and personalised values are put into a clone of the model's state only", 1)
    f = ctx.ix.func("leaspy.algo.personalize.mcmc", "McmcPersonalizeAlgorithm._compute_individual_parameters", rid)
    ctx.analysed(f)
    live = sw.live_writes(f)
    for node, desc in live:
        ctx.violation(rid, f, node, f"{desc} - {why}", construct="writes after the cleaning")
    if not live:
        ctx.ok(rid, f, f.node, "every state write of the wrapper goes to a clone of the model's state", construct="writes after the cleaning")


_SELF_MUT_CACHE = {}


def _param_mut(ctx, cg):
    if not hasattr(ctx, "_c13_mut"):
        from ..effects import SharedDefaults
        ctx._c13_mut = SharedDefaults(ctx.ix).param_mutations(cg)
    return ctx._c13_mut


def _self_mutating_methods(ix, mod, cls, cg=None, mut=None):
    """names of the methods of `cls` that modify the object they are called on: a store through `self` (attribute, item of an attribute), a
    mutator call on a container reached from `self`, or a call of another such method on `self` (fixpoint).  `__init__` is not a method one
    calls on an existing object."""
    key = (ix.serial, mod, cls)
    if key in _SELF_MUT_CACHE:
        return _SELF_MUT_CACHE[key]
    node = ix.classes.get((mod, cls))
    out = set()
    if node is not None:
        meths = {b.name: b for b in node.body if isinstance(b, ast.FunctionDef) and b.name != "__init__"}
        calls = {}
        for name, fn in meths.items():
            direct = False
            calls[name] = set()
            for n_ in ast.walk(fn):
                if isinstance(n_, ast.stmt):
                    for t in store_targets(n_):
                        if isinstance(t, (ast.Attribute, ast.Subscript)) and root_name(t) == "self":
                            direct = True
                if isinstance(n_, ast.Call) and U(n_.func) in ("setattr", "object.__setattr__") and n_.args and U(n_.args[0]) == "self":
                    direct = True
                if isinstance(n_, ast.Call) and isinstance(n_.func, ast.Attribute):
                    if isinstance(n_.func.value, ast.Name) and n_.func.value.id == "self":
                        calls[name].add(n_.func.attr)
                    elif root_name(n_.func.value) == "self" and n_.func.attr in ("update", "pop", "clear", "setdefault", "append", "extend", "insert", "remove", "sort", "popitem"):
                        direct = True
            # something reached from `self` handed to a function that writes through that parameter
            fk = ix.funcs.get((mod, f"{cls}.{name}"))
            if fk is not None and cg is not None and mut is not None:
                from ..effects import StateWrites
                for site in cg.sites.get(fk.key, []):
                    for tgt in site.targets:
                        for q, arg in StateWrites._bind_args(site.node, tgt):
                            if isinstance(arg, (ast.Attribute, ast.Subscript)) and root_name(arg) == "self" and q in mut.get(tgt.key, ()):
                                direct = True
            if direct:
                out.add(name)
        changed = True
        while changed:
            changed = False
            for name in meths:
                if name not in out and calls[name] & out:
                    out.add(name)
                    changed = True
    _SELF_MUT_CACHE[key] = out
    return out


def r14_api_arguments_untouched(ctx):
    """'does not modify the objects passed in' - for every argument of the public calls, not only the settings and the data: a dictionary
    of time points, of individual parameters ... handed to `estimate` & co. is only read.  Decided on paths: a store through a parameter is
    reported when some path reaches it on which the parameter was not re-bound to an object of the function's own."""
    ctx.rule("C13.R14", "the public methods of the model API store nothing through their arguments (on any path where the argument is still the caller's object)", 1)
    MUT = {"update", "pop", "popitem", "clear", "setdefault", "append", "extend", "insert", "remove", "sort", "reverse", "__setitem__", "__delitem__", "add", "discard"}
    n_fun = 0
    for f in ctx.ix.iter_funcs():
        if f.mod != "leaspy.models.base" or not f.qual.startswith("BaseModel.") or f.name.startswith("_"):
            continue
        n_fun += 1
        ctx.analysed(f)
        a = f.node.args
        params = [p_.arg for p_ in a.posonlyargs + a.args + a.kwonlyargs if p_.arg not in ("self", "cls")]
        if not params:
            continue
        cfg = None
        for st in statements(f.node):
            hits = []
            for t in store_targets(st):
                if isinstance(t, (ast.Subscript, ast.Attribute)) and root_name(t) in params:
                    hits.append((root_name(t), st))
            for c in header_walk(st):
                if isinstance(c, ast.Call) and isinstance(c.func, ast.Attribute) and c.func.attr in MUT and root_name(c.func.value) in params:
                    hits.append((root_name(c.func.value), st))
                if isinstance(c, ast.Call) and any(k.arg == "inplace" and U(k.value) == "True" for k in c.keywords) and isinstance(c.func, ast.Attribute) and root_name(c.func.value) in params:
                    hits.append((root_name(c.func.value), st))
            for pname, st_ in hits:
                cfg = cfg or CFG(f.node)
                sn = cfg.node_of(st_)
                rebinds = [n for n, s2 in cfg.stmt.items() if s2 is not None and n != sn and any(isinstance(t, ast.Name) and t.id == pname for t in store_targets(s2))
                           and not (isinstance(s2, (ast.For, ast.AsyncFor)))]
                path = cfg.path_avoiding(cfg.entry, rebinds, end=sn) if sn is not None else [0]
                if path is not None:
                    ctx.violation("C13.R14", f, st_, f"`{U(st_)[:70]}` stores through the argument `{pname}`" + (" on the paths where it was not re-bound first" if rebinds else "") +
                                  f": the object the caller passed to `{f.name}` is modified by the call", construct=f"store through {pname} in {f.name}")
    ctx.ok("C13.R14", ("leaspy.models.base", "BaseModel"), None, f"{n_fun} public methods of BaseModel: no store through an argument that is still the caller's object", construct="public API arguments only read")


def r15_user_objects_in_the_settings_only_read(ctx, rid="C13.R15", why="the object the caller put into the settings is modified: the same settings re-used for another call describe another design"):
    """The simulation reads objects the caller put into the settings (the table of visits ...) through `self.param_study[...]` /
    `settings.parameters[...]`: they are the caller's own objects (the settings are deep-copied for the algorithm parameters, not for these) and
    are only read - no `inplace=True` operation, item store or mutator call on them or on a local bound to them."""
    ctx.rule(rid, "objects reached from the settings / param_study of the simulation are never modified in place", 1)
    MUT = {"update", "pop", "popitem", "clear", "setdefault", "append", "extend", "insert", "remove", "sort", "reverse", "drop_duplicates", "sort_values", "sort_index", "reset_index", "set_index",
           "dropna", "fillna", "rename", "drop"}

    def from_settings(e, aliases):
        while isinstance(e, (ast.Subscript, ast.Attribute)) and not (isinstance(e, ast.Subscript) and U(e.value) in ("self.param_study", "settings.parameters", "self.algo_parameters", "visit_parameters", "dict_param")):
            e = e.value
        if isinstance(e, ast.Subscript):
            return True
        return isinstance(e, ast.Name) and e.id in aliases
    n = 0
    for f in ctx.ix.iter_funcs():
        if not f.mod.startswith("leaspy.algo.simulate"):
            continue
        n += 1
        aliases = set()
        for _ in range(2):
            for st in statements(f.node):
                if isinstance(st, ast.Assign) and len(st.targets) == 1 and isinstance(st.targets[0], ast.Name) and isinstance(st.value, (ast.Subscript, ast.Name)) and from_settings(st.value, aliases) \
                        and "df" in U(st.value):
                    aliases.add(st.targets[0].id)
        for st in statements(f.node):
            for c in header_walk(st):
                if isinstance(c, ast.Call) and isinstance(c.func, ast.Attribute) and from_settings(c.func.value, aliases) and isinstance(c.func.value, (ast.Name, ast.Subscript)) \
                        and (isinstance(c.func.value, ast.Name) or "df" in U(c.func.value)):
                    inplace = any(k.arg == "inplace" and U(k.value) == "True" for k in c.keywords)
                    if inplace or (c.func.attr in MUT and c.func.attr in ("update", "pop", "popitem", "clear", "setdefault", "append", "extend", "insert", "remove", "sort", "reverse")):
                        ctx.violation(rid, f, c, f"`{U(c)[:70]}` modifies in place an object taken from the settings: " + why, construct=f"in-place on a settings object in {f.name}")
            for t in store_targets(st):
                if isinstance(t, ast.Subscript) and isinstance(t.value, ast.Name) and t.value.id in aliases:
                    ctx.violation(rid, f, st, f"`{U(st)[:70]}` stores into an object taken from the settings: " + why, construct=f"in-place on a settings object in {f.name}")
    ctx.ok(rid, ("leaspy.algo.simulate.simulate", "SimulationAlgorithm"), None, f"{n} functions of the simulation package: user objects of the settings only read", construct="settings objects only read")


INPUT_TYPES = {"AlgorithmSettings": "settings", "Dataset": "dataset", "Data": "data", "OutputsSettings": "output settings", "DataFrame": "table"}


def r4_inputs(ctx, cg, rid="C13.R4"):
    ctx.rule(rid, "no store through the caller's settings / dataset / data objects (algo, models, samplers packages)", 1)
    ix = ctx.ix
    n = 0
    for f in ix.iter_funcs():
        if not f.mod.startswith(("leaspy.algo", "leaspy.models", "leaspy.samplers")):
            continue
        if f.mod in ("leaspy.algo.settings",):
            continue
        types = cg.local_types(f)
        a = f.node.args
        params = {}
        for p in a.posonlyargs + a.args + a.kwonlyargs:
            t = types.get(p.arg)
            if t is not None and t[1] in INPUT_TYPES:
                params[p.arg] = t[1]
            elif p.annotation is not None and "DataFrame" in U(p.annotation) and "Optional" not in U(p.annotation):
                params[p.arg] = "DataFrame"
        if not params:
            continue
        rebound = set()
        for st in sorted(statements(f.node), key=lambda s: s.lineno):
            for t in store_targets(st):
                if isinstance(t, ast.Name) and t.id in params:
                    rebound.add(t.id)
                r = root_name(t)
                if isinstance(t, (ast.Attribute, ast.Subscript)) and r in params and r not in rebound:
                    n += 1
                    ctx.violation(rid, f, st, f"stores through the caller's {INPUT_TYPES[params[r]]} `{r}` ({params[r]}): the object passed in is modified, so reusing it changes the next call")
        for c in ast.walk(f.node):
            if isinstance(c, ast.Call) and isinstance(c.func, ast.Attribute):
                r = root_name(c.func.value)
                if r in params and r not in rebound:
                    m = c.func.attr
                    inplace = any(k.arg == "inplace" and U(k.value) == "True" for k in c.keywords)
                    if inplace or (params[r] in ("Dataset",) and m == "move_to_device" and not _in_restoring_try(f, c)) or \
                            (params[r] == "AlgorithmSettings" and (m in ("set_logs", "_manage_kwargs", "check_consistency") or m in _self_mutating_methods(ix, "leaspy.algo.settings", "AlgorithmSettings", cg, _param_mut(ctx, cg)))) or \
                            (m in ("update", "pop", "clear", "setdefault", "append", "extend", "insert", "remove", "sort") and isinstance(c.func.value, (ast.Attribute, ast.Subscript))
                             and params[r] in ("AlgorithmSettings",)):
                        n += 1
                        ctx.violation(rid, f, c, f"`{U(c.func)}` mutates the caller's {INPUT_TYPES[params[r]]} `{r}`")
        # nested containers of the caller's settings reached through a local name (`vp = settings.parameters["visit_parameters"]`) are still the
        # caller's: a write through the local, or handing it to a function that writes through its parameter, modifies the object passed in
        sparams = {p_ for p_, t_ in params.items() if t_ == "AlgorithmSettings" and p_ not in rebound}
        if sparams:
            from ..effects import SharedDefaults, StateWrites
            if not hasattr(ctx, "_c13_mut"):
                sd_ = SharedDefaults(ix)
                ctx._c13_mut = sd_.param_mutations(cg)
            mut = ctx._c13_mut

            def nested(e):
                while isinstance(e, (ast.Attribute, ast.Subscript)):
                    e = e.value
                return isinstance(e, ast.Name) and e.id in sparams
            alias = {}
            for st in sorted(statements(f.node), key=lambda s_: s_.lineno):
                if isinstance(st, ast.Assign) and len(st.targets) == 1 and isinstance(st.targets[0], ast.Name) and isinstance(st.value, (ast.Attribute, ast.Subscript)) and nested(st.value) \
                        and ".parameters" in U(st.value):
                    alias[st.targets[0].id] = U(st.value)
            for c in ast.walk(f.node):
                if isinstance(c, ast.Call) and isinstance(c.func, ast.Attribute) and isinstance(c.func.value, ast.Name) and c.func.value.id in alias \
                        and c.func.attr in ("update", "pop", "clear", "setdefault", "append", "extend", "insert", "remove", "sort", "popitem"):
                    n += 1
                    ctx.violation(rid, f, c, f"`{U(c)[:70]}` mutates `{alias[c.func.value.id]}` of the caller's settings through the local `{c.func.value.id}`")
            for st in statements(f.node):
                for t in store_targets(st):
                    if isinstance(t, ast.Subscript) and isinstance(t.value, ast.Name) and t.value.id in alias:
                        n += 1
                        ctx.violation(rid, f, st, f"`{U(st)[:70]}` stores into `{alias[t.value.id]}` of the caller's settings through the local `{t.value.id}`")
            for site in cg.sites.get(f.key, []):
                for tgt in site.targets:
                    for q, arg in StateWrites._bind_args(site.node, tgt):
                        is_alias = (isinstance(arg, ast.Name) and arg.id in alias) or (isinstance(arg, (ast.Attribute, ast.Subscript)) and nested(arg) and ".parameters" in U(arg))
                        if is_alias and q in mut.get(tgt.key, ()):
                            n += 1
                            ctx.violation(rid, f, site.node, f"`{U(site.node)[:70]}` hands `{alias.get(getattr(arg, 'id', None), U(arg))}` of the caller's settings to {tgt.qual}({q}=...), "
                                          "which writes through that parameter: the settings object passed in is modified")
    ctx.ok(rid, ("leaspy.algo.base", "<package>"), None, "no store / in-place call through settings, dataset, data or table parameters", construct="package-wide scan of stores rooted at input parameters")


def r5_shared_defaults(ctx, rid="C13.R5", scope=None, title=None):
    """'not on which calls were made earlier': class-level / module-level containers and mutable default arguments outlive a call and
    are shared by every algorithm / model object of the process - nothing may be written through them (directly or through an alias)."""
    from ..effects import SharedDefaults
    ctx.rule(rid, title or "no write through a class-level / module-level container or a mutable default argument (package-wide, through aliases)", 10 if scope is None else 1)
    sd = SharedDefaults(ctx.ix)
    cg = callgraph(ctx)
    n = 0
    if scope is not None:  # the same rule restricted to the modules whose name starts with `scope`
        for f in ctx.ix.iter_funcs():
            if not f.mod.startswith(scope):
                continue
            for node, desc in sd.writes(f) + sd.handed_over(f, cg):
                ctx.violation(rid, f, node, desc + ": what is computed for one object is served to another one built later in the same process")
            for d in getattr(f.node, "decorator_list", []):
                dn = U(d.func) if isinstance(d, ast.Call) else U(d)
                if dn.split(".")[-1] in ("lru_cache", "cache", "cached_property") and f.cls is not None:
                    ctx.violation(rid, f, d, f"`@{dn}` memoises a method: its answer is computed from the object's state at the first call and returned unchanged afterwards")
        ctx.ok(rid, (scope, "<package>"), None, f"no process-wide memo / shared container written in {scope}.*", construct=f"{scope}.*")
        return
    for f in ctx.ix.iter_funcs():
        for node, desc in sd.writes(f) + sd.handed_over(f, cg):
            n += 1
            ctx.violation(rid, f, node, desc + ": the change outlives the call, so later calls (on any object of the process) no longer depend only on their own inputs")
    # memoised methods keep, per process, an answer computed from the object's state at the first call
    for f in ctx.ix.iter_funcs():
        for d in getattr(f.node, "decorator_list", []):
            dn = U(d.func) if isinstance(d, ast.Call) else U(d)
            if dn.split(".")[-1] in ("lru_cache", "cache", "cached_property") and f.cls is not None:
                ctx.violation(rid, f, d, f"`@{dn}` memoises a method: its answer is computed from the object's state at the first call and returned unchanged afterwards, "
                              "whatever was fitted / loaded in between")
    from ._shared import memoised_readers
    for f, d, c in memoised_readers(ctx):
        if f.cls is None:  # (memoised methods are reported above)
            ctx.violation(rid, f, d, f"`@{U(d)[:40]}` memoises `{f.name}`, which reads the file system (`{U(c)[:50]}`): a file written again in the same process is answered from the first reading")
    for ck, d in sorted(sd.class_level.items()):
        for name, st in sorted(d.items()):
            ctx.ok(rid, (ck[0], ck[1]), st, f"class-level container {ck[1]}.{name}: read-only everywhere", construct=f"{ck[1]}.{name}")
    for mod, d in sorted(sd.module_level.items()):
        for name, st in sorted(d.items()):
            ctx.ok(rid, (mod, "<module>"), st, f"module-level container {name}: read-only everywhere", construct=f"{mod}.{name}")
    for (ck, attr), why in sorted(sd.attr_alias.items()):
        ctx.ok(rid, (ck[0], ck[1]), None, f"self.{attr} may be bound to {why}: never written through", construct=f"alias self.{attr}")


def r6_no_inplace_on_model_values(ctx):
    """`model.parameters[...]` / `state[...]` hand out the model's own tensors (and `.numpy()`, `.detach()`, views share their memory): an
    in-place write through them changes the model's parameters behind its back."""
    from ._shared import inplace_on_state_values
    ctx.rule("C13.R6", "no in-place write into a tensor obtained from the model's parameters / state (package-wide alias analysis)", 8)
    sites, holders = inplace_on_state_values(ctx)
    for fn, node, desc in sites:
        ctx.violation("C13.R6", fn, node, desc + ": the call rewrites the model's own value (parameters / variables are no longer what they were before the call)")
    for fn, names in holders:
        ctx.ok("C13.R6", fn, fn.node, f"locals aliasing model values {names}: never written in place", construct=f"def {fn.name}")


def r7_argument_views(ctx):
    """'do not modify the data, table or settings objects passed in': `np.asarray(x)`, `torch.as_tensor(x)`, `x.values`, `x.reshape(..)` ...
    return the caller's own buffer when it already has the right type; arithmetic done in place on such a view rewrites the input."""
    from ._shared import inplace_on_argument_views
    ctx.rule("C13.R7", "no in-place operation on a (possible) view of an argument (np.asarray / as_tensor / .values / .reshape ... of a parameter), package-wide", 1)
    sites, holders = inplace_on_argument_views(ctx)
    for fn, node, desc in sites:
        ctx.violation("C13.R7", fn, node, desc + ": when the caller passes an array of that type, its own data is rewritten (a repeated call then gives another answer)")
    for fn, names in holders:
        ctx.ok("C13.R7", fn, fn.node, f"views of arguments {names}: never modified in place", construct=f"def {fn.name}")
    ctx.ok("C13.R7", ("leaspy", "<package>"), None, f"{len(list(ctx.ix.iter_funcs()))} functions scanned", construct="package-wide scan")


def _in_restoring_try(f, call) -> bool:
    for t in ast.walk(f.node):
        if isinstance(t, ast.Try) and t.finalbody:
            names = {U(c.func) for b in t.finalbody for c in ast.walk(b) if isinstance(c, ast.Call)}
            if U(call.func) in names:
                return True
    return False


def r10_read_api_stores_nothing(ctx):
    from ._shared import model_stores_in_read_api
    ctx.rule("C13.R10", "estimate / compute_*_trajectory (and the model methods they reach) store nothing on the model object", 1)
    sites, n_region = model_stores_in_read_api(ctx)
    for f, st, attr in sites:
        ctx.violation("C13.R10", f, st, f"`{U(st)[:70]}` stores `self.{attr}` from a method reached by estimate / compute_individual_trajectory: estimate is documented as leaving the model untouched; what it remembers on the object changes the answer of the next call")
    ctx.ok("C13.R10", ("leaspy.models", "<package>"), None, f"{n_region} functions reachable from the read-only API: no attribute of the model is written", construct="read-only API")


def rules(ctx):
    cg = callgraph(ctx)
    sw = state_writes(ctx)
    r1_typestate(ctx)
    r2_clone_only(ctx, cg, sw)
    r3_mcmc_personalize(ctx, cg, sw)
    r3b_after_cleaning(ctx, sw)
    r4_inputs(ctx, cg)
    r14_api_arguments_untouched(ctx)
    r15_user_objects_in_the_settings_only_read(ctx)
    r5_shared_defaults(ctx)
    r6_no_inplace_on_model_values(ctx)
    r7_argument_views(ctx)
    r10_read_api_stores_nothing(ctx)
    # 'do not modify the table passed in': the readers work on a deep copy of the caller's table (same rule as C14.R1)
    from .c14 import r1_copy
    r1_copy(ctx, rid="C13.R11")
    # an algorithm works on its own deep copy of the settings' parameters (nested dictionaries included): the settings object passed in is never modified (same rule as C11.R7)
    from .c11 import r7_deepcopy
    r7_deepcopy(ctx, rid="C13.R9")
    # 'the same call with the same seed gives the same answer, whatever was done earlier in the process': the per-subject jobs may run
    # in worker processes that outlive the call and are not reached by its seeding - nothing is drawn inside them (same rule as C07.R3)
    from .c07 import r3_job_effects
    r3_job_effects(ctx, rid="C13.R8", title="the per-subject jobs draw nothing (their generators belong to reused worker processes) and write only their own state")
    # 'not on which calls were made earlier': an algorithm object run twice builds its samplers anew (same rule as C07.R13)
    # ... and a revert that finds no snapshot is an error, never a silent no-op (same rule as C02.R3): the two together are what lets a
    # model object behave like its saved-and-reloaded twin
    from .c02 import r3_revert_structure
    r3_revert_structure(ctx, rid="C13.R13", title="State.revert restores the snapshot and raises when there is none (a call on a model never silently keeps rejected proposals)")
    from .c07 import r13_fresh_samplers_every_run
    r13_fresh_samplers_every_run(ctx, rid="C13.R12", why="a second run of the same algorithm object starts from the proposal scales adapted during the first: its result depends on the calls made earlier")
    ctx.trust("State.clone deep-copies (C01.R5); copy.deepcopy; joblib runs each job on its own state object")
    ctx.assume("receiver types follow the annotations / naming conventions listed in sa/effects.py (NAME_TYPES)")


FITF = "src/leaspy/algo/fit/mcmc_saem.py"
PM = "src/leaspy/algo/personalize/mcmc.py"
MC = "src/leaspy/models/mcmc_saem_compatible.py"
SCM = "src/leaspy/algo/personalize/scipy_minimize.py"
VARIANTS = [
    V("ages-normalised-in-place", "src/leaspy/models/lme.py", "        ages_norm = (\n            np.array(timepoints).reshape(-1) - self.parameters[\"ages_mean\"]\n        ) / self.parameters[\"ages_std\"]\n",
      "        ages_norm = np.asarray(timepoints, dtype=np.float64).reshape(-1)\n        ages_norm -= self.parameters[\"ages_mean\"]\n        ages_norm /= self.parameters[\"ages_std\"]\n", "C13.R7"),
    V("memoised-method", "src/leaspy/io/data/dataset.py", "    def to_pandas(self", "    @functools.lru_cache(maxsize=None)\n    def to_pandas(self", "C13.R5"),
    V("class-default-setdefault", SCM, "        self.format_convergence_issues = self.algo_parameters.get(", "        self.scipy_minimize_params.setdefault(\"tol\", 1e-6)\n        self.format_convergence_issues = self.algo_parameters.get(", "C13.R5"),
    V("class-default-nested-write", SCM, "        self.format_convergence_issues = self.algo_parameters.get(",
      "        self.DEFAULT_SCIPY_MINIMIZE_PARAMS_WITHOUT_JACOBIAN[\"options\"][\"maxiter\"] = 50\n        self.format_convergence_issues = self.algo_parameters.get(", "C13.R5"),
    V("silent-class-default-copied", SCM, "        self.format_convergence_issues = self.algo_parameters.get(",
      "        self.scipy_minimize_params = dict(self.scipy_minimize_params)\n        self.scipy_minimize_params.setdefault(\"tol\", 1e-6)\n        self.format_convergence_issues = self.algo_parameters.get(", None),
    V("fit-keeps-data", FITF, "            # Do not keep training data nor individual latent variables in the model\n            model.reset_data_variables(model_state)\n            model_state.put_individual_latent_variables(None)\n", "", "C13.R1"),
    V("fit-keeps-latents", FITF, "            model_state.put_individual_latent_variables(None)\n        model.state = model_state", "        model.state = model_state", "C13.R1"),
    V("fit-no-clone", FITF, "        model_state = state.clone()\n", "        model_state = state\n", "C13.R1"),
    V("terminate-without-reset", PM, "            model.reset_data_variables(model_state)\n", "", "C13.R1"),
    V("trajectory-on-live-state", MC, "        local_state = self.state.clone(disable_auto_fork=True)\n        self._put_data_timepoints(local_state, timepoints)\n        for (",
      "        local_state = self.state\n        self._put_data_timepoints(local_state, timepoints)\n        for (", "C13.R2"),
    V("prior-trajectory-on-live-state", MC, "        local_state = self.state.clone(disable_auto_fork=True)\n        self._put_data_timepoints(local_state, timepoints)\n        local_state.put_individual_latent_variables(",
      "        local_state = self.state\n        self._put_data_timepoints(local_state, timepoints)\n        local_state.put_individual_latent_variables(", "C13.R2"),
    V("scipy-live-state", "src/leaspy/algo/personalize/scipy_minimize.py", "            states[idx] = state.clone(disable_auto_fork=True)", "            states[idx] = state", "C13.R2"),
    V("personalize-skips-cleanup", PM, "        self._terminate_algo(model, state)\n", "        if self.algo_parameters.get(\"progress_bar\", True):\n            self._terminate_algo(model, state)\n", "C13.R3"),
    V("algo-writes-settings", "src/leaspy/algo/algo_with_samplers.py", "        self.current_iteration: int = 0\n", "        self.current_iteration: int = 0\n        settings.parameters[\"n_burn_in_iter\"] = 0\n", "C13.R4"),
    V("silent-clone-renamed", FITF, "        model_state = state.clone()\n", "        model_state = state.clone(disable_auto_fork=False)\n", None),
    V("silent-rename-model-state", "src/leaspy/algo/fit/mcmc_saem.py", "model_state", "cleaned", None, count=6),
]
