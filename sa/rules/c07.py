"""C07 - individuals are conditionally independent and order-equivariant."""
from __future__ import annotations

import ast

from ..astq import U, kwarg, statements, local_defs
from ..cfg import CFG, header_walk
from ..effects import rng_draws
from ..index import AnalysisError, walk_no_nested
from ..interp import Ext, FuncRef, Obj
from ..selftest import V
from ._samplers import sample_functions
from ._shared import callgraph, prior_sampling_sites, state_writes

PROP = "C07"
LEVEL_TEXT = (
    "Static separability check: (R1) axis-0 abstract interpretation of every variable graph of every shipped configuration: every per-individual likelihood term "
    "(nll_attach*_ind, nll_regul_*_ind, nll_regul_ind_sum_ind) and every node between an individual input and such a term keeps the individual axis (no reduction, "
    "transposition, leading-axis indexing or mixing over axis 0), and each population total is the full reduction of exactly its per-individual term "
    "(nll_regul_ind_sum_ind sums the regularity of every individual variable); (R2) scipy_minimize gives each subject its own cloned state and its own "
    "single-individual dataset, indexed by the same identifier; (R3) the per-subject job function draws no random number and writes only through the state it "
    "was handed (call-graph effect summary), so the number of workers cannot change a result; (R4) the individual sampler decides per row: alpha is built from "
    "per-individual terms only, one uniform draw per individual, per-individual proposal scale. NOT decided: floating-point summation order, joblib's ordering (trusted)."
)


def r1_separability(ctx):
    from ..domains.axis import axis_of_graph
    from ..specgraph import graphs, nif_chain

    ctx.rule("C07.R1", "per-individual terms keep the individual axis; totals are full reductions of them", 60)
    for g in graphs(ctx):
        axes = axis_of_graph(ctx, g)
        I = g.interp
        where = (g.model.cls[0], g.model.cls[1] + ".get_variables_specs")
        ind_inputs = [n.name for n in g.by_kind("IndividualLatentVariable", "DataVariable")]
        ind_terms = [n for n in g.nodes if n.endswith("_ind") and n.startswith("nll_")]
        for t in ind_terms:
            between = ({t} | g.ancestors(t)) & set().union(*[g.descendants(i) | {i} for i in ind_inputs])
            bad = sorted(b for b in between if axes.get(b) != "IND")
            if bad and all(str(axes.get(b)).startswith("UNKNOWN") for b in bad):
                ctx.unknown("C07.R1", where, None, f"{g.cfg.name}: the axis-0 domain could not evaluate {bad[:3]} ({str(axes.get(bad[0]))[:120]})", construct=f"per-individual term {t}", instance=g.cfg.name)
                continue
            ctx.check(not bad, "C07.R1", where, None, f"{g.cfg.name}: `{t}` and the {len(between)} individual-level nodes it is computed from are row-wise",
                      f"{g.cfg.name}: `{t}` is computed through {bad[:3]} (axis-0 {[axes.get(b) for b in bad[:3]]}): an individual's term depends on other individuals",
                      construct=f"per-individual term {t}", instance=g.cfg.name)
        # totals
        for t in ind_terms:
            tot = t[: -len("_ind")]
            if tot not in g.nodes:
                continue
            node = g.nodes[tot]
            chain = nif_chain(I, node.var.attrs["f"])
            base, kws = chain[0]
            full_sum = isinstance(base, FuncRef) and base.name == "sum_dim" and not {k for k in kws if k in ("dim", "but_dim")} and len(chain) == 1
            is_sum_of_totals = isinstance(base, FuncRef) and base.name == "_sum_args"
            if is_sum_of_totals:
                # e.g. joint nll_attach = nll_attach_y + nll_attach_event ; its _ind twin must sum the matching _ind terms
                twin = g.nodes[t]
                ok = sorted(p + "_ind" for p in node.parents) == sorted(twin.parents)
                ctx.check(ok, "C07.R1", where, None, f"{g.cfg.name}: `{tot}` = sum of {node.parents}, `{t}` = sum of their per-individual twins",
                          f"{g.cfg.name}: `{tot}` sums {node.parents} but `{t}` sums {twin.parents}: the total is not the sum of the per-individual terms", construct=f"total {tot}", instance=g.cfg.name)
            else:
                ok = node.parents == (t,) and full_sum and axes.get(tot) == "AGG"
                ctx.check(ok, "C07.R1", where, None, f"{g.cfg.name}: `{tot}` = full sum of `{t}`",
                          f"{g.cfg.name}: `{tot}` (parents {node.parents}, {'full' if full_sum else 'partial / other'} reduction) is not the full sum of `{t}`", construct=f"total {tot}", instance=g.cfg.name)
        if "nll_regul_ind_sum_ind" in g.nodes:
            want = sorted(f"nll_regul_{n.name}_ind" for n in g.by_kind("IndividualLatentVariable"))
            got = sorted(g.nodes["nll_regul_ind_sum_ind"].parents)
            ctx.check(want == got, "C07.R1", ("leaspy.variables.specs", "NamedVariables._auto_vars"), None, f"{g.cfg.name}: nll_regul_ind_sum_ind sums the regularity of every individual variable",
                      f"{g.cfg.name}: nll_regul_ind_sum_ind sums {got}, individual variables have {want}", construct="nll_regul_ind_sum_ind", instance=g.cfg.name)


def r2_one_state_per_subject(ctx):
    ctx.rule("C07.R2", "scipy_minimize: one cloned state and one single-individual dataset per subject", 4)
    f = ctx.ix.func("leaspy.algo.personalize.scipy_minimize", "ScipyMinimizeAlgorithm._compute_individual_parameters", "C07.R2")
    from ..astq import Canon, unify
    L = Canon(f.node).lines(False, True)
    bd = unify(L, ["?data = Data.from_dataframe(?df, ...)", "?dss = {?i: Dataset(?data[[?i]]...) for ?i in $2.indices}"])
    ds = [s for s in statements(f.node) if isinstance(s, ast.Assign) and isinstance(s.value, ast.DictComp) and "Dataset(" in U(s.value.value)]
    ctx.check(bd is not None, "C07.R2", f, ds[0] if ds else f.node, "one Dataset(data[[idx]]) per identifier", "the per-subject datasets are not built as Dataset(data[[idx]]) for each identifier",
              construct="per-subject datasets")
    cl = [s for s in ast.walk(f.node) if isinstance(s, ast.Assign) and isinstance(s.targets[0], ast.Subscript) and isinstance(s.targets[0].value, ast.Name)
          and ((isinstance(s.value, ast.Call) and isinstance(s.value.func, ast.Attribute) and s.value.func.attr == "clone") or U(s.value) in ("state", "model.state"))]
    ok = len(cl) == 1 and isinstance(cl[0].value, ast.Call) and U(cl[0].value.func).endswith(".clone")
    job_ = ctx.ix.func("leaspy.algo.personalize.scipy_minimize", "ScipyMinimizeAlgorithm._get_individual_parameters_patient_master", "C07.R2")
    moved = not cl and any(isinstance(c, ast.Call) and isinstance(c.func, ast.Attribute) and c.func.attr == "clone" for c in ast.walk(job_.node))
    if moved:
        ctx.unknown("C07.R2", f, f.node, "the per-subject states are no longer prepared in _compute_individual_parameters (a clone now happens inside the job): unrecognised organisation", construct="one clone per subject")
        return
    ctx.check(ok, "C07.R2", f, cl[0] if cl else f.node, "one clone of the model state per subject", "subjects share a working state: one subject's optimisation reads another's data / latent values",
              construct="one clone per subject")
    cont = U(cl[0].targets[0].value) if cl else "states"
    dcont = U(ds[0].targets[0]) if ds else "datasets"
    loaded = [c for c in ast.walk(f.node) if isinstance(c, ast.Call) and isinstance(c.func, ast.Attribute) and c.func.attr == "put_data_variables"]
    ctx.check(bool(loaded), "C07.R2", f, loaded[0] if loaded else f.node, "each subject's own observations are loaded into its state",
              "the per-subject states never receive the subject's data (`put_data_variables` is gone): every subject is optimised against whatever the cloned state held",
              construct="data loaded per subject")
    for c in ast.walk(f.node):
        if isinstance(c, ast.Call) and U(c.func) in ("model.put_data_variables", "model.put_individual_parameters"):
            ok = len(c.args) == 2 and isinstance(c.args[0], ast.Subscript) and isinstance(c.args[1], ast.Subscript) and U(c.args[0].value) == cont and U(c.args[1].value) == dcont \
                and U(c.args[0].slice) == U(c.args[1].slice)
            ctx.check(ok, "C07.R2", f, c, "the subject's data goes into the subject's own state", f"`{U(c)[:80]}`: state and dataset of different subjects are paired")
    bs = unify(L, ["?st = $1.state", "?sc = _AffineScalings1D.from_state(?st, ...)", "?res = Parallel(...)(...scaling=?sc...)"]) or unify(L, ["?sc = _AffineScalings1D.from_state($1.state, ...)", "?res = Parallel(...)(...scaling=?sc...)"])
    ctx.check(bs is not None, "C07.R2", f, f.node, "scalings come from the population-level state (shared, read-only)", "scalings are not derived from the shared population-level state", construct="shared scalings")


def r3_job_effects(ctx, rid="C07.R3", title=None):
    ctx.rule(rid, title or "the per-subject job draws nothing and writes only its own state", 2)
    ix = ctx.ix
    cg = callgraph(ctx)
    sw = state_writes(ctx)
    job = ix.func("leaspy.algo.personalize.scipy_minimize", "ScipyMinimizeAlgorithm._get_individual_parameters_patient_master", rid)
    seen = cg.reach([job])
    ps = prior_sampling_sites(ctx, cg)
    n = 0
    for k in seen:
        g = ix.funcs[k]
        for fam, node, txt in rng_draws(ix, g) + [("torch", c, "prior sampling") for c in ps.get(k, [])]:
            n += 1
            ctx.violation(rid, g, node, f"the per-subject job draws `{txt}` ({' -> '.join(cg.path_to(seen, k)[-4:])}): results depend on how jobs are scheduled over workers")
        for node, desc in sw.live_writes(g):
            ctx.violation(rid, g, node, f"the per-subject job {desc}: subjects interfere through the shared model state")
        if g.cls == job.cls:
            for st in statements(g.node):
                if isinstance(st, (ast.Assign, ast.AugAssign)):
                    for t in (st.targets if isinstance(st, ast.Assign) else [st.target]):
                        if isinstance(t, (ast.Attribute, ast.Subscript)) and U(t).startswith("self."):
                            ctx.violation(rid, g, st, f"the per-subject job stores into the shared algorithm object (`{U(t)[:40]}`): jobs interfere when run in one process")
    ctx.ok(rid, job, job.node, f"{len(seen)} functions reachable from the job: no draw, no write to a live / shared state", construct="def _get_individual_parameters_patient_master")
    params = sw.writes_param.get(("leaspy.algo.personalize.scipy_minimize", "ScipyMinimizeAlgorithm._get_individual_parameters_patient"), set())
    ctx.check(params <= {"state"}, rid, job, job.node, "the job writes only through its `state` argument", f"the job writes through parameters {sorted(params)}", construct="written parameters")
    un = cg.unresolved_in(seen)
    ctx.extra["job_unresolved_call_sites"] = [f"{s.func.qual}:{s.node.lineno} {U(s.node.func)[:40]}" for s in un]
    if len(un) > 2:
        ctx.unknown(rid, job, job.node, f"{len(un)} unresolved call sites in the job region (bound 2: self.logger, the scipy callback)", construct="unresolved calls in the job")


def r4_individual_sampler(ctx):
    ctx.rule("C07.R4", "individual sampler: per-row decision, per-individual draw and scale", 3)
    ix = ctx.ix
    sfs = [sf for sf in sample_functions(ix, "C07.R4") if sf.kind == "individual"]
    if not sfs:
        raise AnalysisError("C07.R4", "individual sampler not found")
    sf = sfs[0]
    names = []
    for n, x in sf.reads:
        for t in sf.read_templates(n):
            names.append(U(t))
    bad = [t for t in names if "_ind" not in t]
    ctx.check(not bad, "C07.R4", sf.f, sf.f.node, "every state read of the individual sampler is a per-individual variable", f"the individual sampler reads population-level totals {bad}: a decision depends on other individuals",
              construct="reads of the individual sampler")
    k = sf.f.cls
    sh = ix.method(k, "shape_adapted_std")
    ok = sh is not None and "self.n_patients" in U(sh.node)
    ctx.check(ok, "C07.R4", sh or sf.f, (sh or sf.f).node, "one proposal scale per individual", "the proposal scale is shared between individuals: one individual's acceptance history changes another's proposals",
              construct="shape_adapted_std")
    g = ix.func("leaspy.samplers.base", "AbstractSampler._group_metropolis_step", "C07.R4")
    from ..astq import Canon
    ok = any("torch.rand($1.shape)" in r or "torch.rand_like($1)" in r for r in Canon(g.node).returns())
    ctx.check(ok, "C07.R4", g, g.node, "one uniform draw per individual (position-indexed)", "individuals share a uniform draw", construct="draw per individual")


def r7_no_cohort_wide_decision(ctx):
    """In the whole-cohort part of the personalisation algorithms the state holds every subject: a control decision that reads it
    (whatever the reduction: `.all()`, `.any()`, `.max()` ...) makes what happens to one subject depend on the data of the others."""
    import re
    ctx.rule("C07.R7", "no control decision of the whole-cohort personalisation code reads the (cohort-wide) state", 10)
    ix = ctx.ix
    cg = callgraph(ctx)
    job = ix.func("leaspy.algo.personalize.scipy_minimize", "ScipyMinimizeAlgorithm._get_individual_parameters_patient", "C07.R7")
    per_subject = set(cg.reach([job]))
    STATE = re.compile(r"(^|[._])states?$")

    META = {"ndim", "shape", "dtype", "device", "is_cuda", "requires_grad"}

    def state_reads(e, defs, depth=0):
        out = []
        meta_only = {id(a.value) for a in ast.walk(e) if isinstance(a, ast.Attribute) and a.attr in META}  # layout queries are not data
        for n in ast.walk(e):
            if id(n) in meta_only:
                continue
            if isinstance(n, ast.Call) and isinstance(n.func, ast.Attribute) and n.func.attr in ("get_tensor_value", "get_tensor_values") and STATE.search(U(n.func.value)):
                out.append(n)
            elif isinstance(n, ast.Subscript) and STATE.search(U(n.value)):
                out.append(n)
            elif isinstance(n, ast.Name) and depth < 4:
                for v in defs.get(n.id, []):
                    if v is not None:
                        out.extend(state_reads(v, defs, depth + 1))
        return out

    n_tests = 0
    for (m, q), f in sorted(ix.funcs.items()):
        if not m.startswith("leaspy.algo.personalize") or (m, q) in per_subject:
            continue
        defs = local_defs(f.node)
        for n in ast.walk(f.node):
            tests = [n.test] if isinstance(n, (ast.If, ast.While, ast.IfExp, ast.Assert)) else list(n.ifs) if isinstance(n, ast.comprehension) else []
            for t in tests:
                n_tests += 1
                rd = state_reads(t, defs)
                if rd:
                    ctx.violation("C07.R7", f, t, f"the test `{U(t)[:80]}` reads `{U(rd[0])[:60]}` of the state shared by all subjects: what is done for one subject (initial point, "
                                  "kept draws, number of steps) then depends on the data of the other subjects")
                else:
                    ctx.ok("C07.R7", f, t, "test independent of the cohort-wide state")
    ctx.extra["C07.R7_tests"] = n_tests


def r13_fresh_samplers_every_run(ctx, rid="C07.R13", why="the adapted proposal scales and acceptance histories of the previous cohort carry over, position by position, to the individuals of the next one: "
                                 "their decisions and estimates then depend on other individuals' data"):
    """Every run builds its samplers anew: `_initialize_samplers` rebinds `self.samplers` to an empty dictionary before anything is built,
    and the per-variable construction is not skipped for a sampler that is already there."""
    ctx.rule(rid, "samplers are rebuilt from scratch at every run (fresh dictionary, no sampler kept from an earlier run)", 2)
    M = "leaspy.algo.algo_with_samplers"
    f = ctx.ix.func(M, "AlgorithmWithSamplersMixin._initialize_samplers", rid)
    ctx.analysed(f)
    cfg = CFG(f.node)
    fresh = [n for n, st in cfg.stmt.items() if isinstance(st, (ast.Assign, ast.AnnAssign)) and U(st.targets[0] if isinstance(st, ast.Assign) else st.target) == "self.samplers"
             and st.value is not None and U(st.value) in ("{}", "dict()")]
    builders = [n for n, st in cfg.stmt.items() if st is not None and any(isinstance(c, ast.Call) and isinstance(c.func, ast.Attribute) and U(c.func.value) == "self"
                                                                            and c.func.attr.startswith("_initialize_") and c.func.attr.endswith("_samplers") for c in header_walk(st))]
    if not builders:
        ctx.unknown(rid, f, f.node, "the calls building the population / individual samplers are no longer in _initialize_samplers", construct="fresh sampler dictionary")
    else:
        ok = bool(fresh) and all(cfg.all_paths_pass(cfg.entry, fresh, end=b) for b in builders)
        ctx.check(ok, rid, f, cfg.stmt[fresh[0]] if fresh else f.node, "`self.samplers = {}` on every path before the samplers are built",
                  "`self.samplers` is no longer emptied at the start of a run: an algorithm object run a second time keeps the samplers of the first run - " + why, construct="fresh sampler dictionary")
    for name in ("_initialize_individual_samplers", "_initialize_population_samplers"):
        g = ctx.ix.func(M, f"AlgorithmWithSamplersMixin.{name}", rid)
        ctx.analysed(g)
        gcfg = CFG(g.node)
        stores = [n for n, st in gcfg.stmt.items() if isinstance(st, ast.Assign) and any(isinstance(t, ast.Subscript) and U(t.value) == "self.samplers" for t in st.targets)]
        if not stores:
            ctx.unknown(rid, g, g.node, f"{name} no longer stores into self.samplers", construct=f"{name}: every sampler built")
            continue
        # a test about what is already in self.samplers decides whether a sampler is built
        conds = [st for st in statements(g.node) if isinstance(st, (ast.If, ast.While)) and ("samplers" in U(st.test) or "_sampler" in U(st.test))]
        ctx.check(not conds, rid, g, conds[0] if conds else g.node, f"{name}: a sampler is built for every variable, whatever is already there",
                  f"`{U(conds[0].test)[:70] if conds else ''}` lets {name} keep a sampler that is already present: " + why, construct=f"{name}: every sampler built")


def rules(ctx):
    r1_separability(ctx)
    # R1 takes `sum_dim(..., but_dim=LVL_IND)` as "every axis but the individuals is reduced": the helpers' bodies are compared with the confirmed forms
    from ._shared import weighted_helper_forms
    weighted_helper_forms(ctx, "C07.R1")
    r2_one_state_per_subject(ctx)
    r3_job_effects(ctx)
    r4_individual_sampler(ctx)
    # subjects are optimised one after the other in one process: a per-subject job that writes through a container shared by all jobs
    # (class-level defaults, the options dictionary every job receives) makes a subject's estimate depend on the subjects handled before
    from .c13 import r5_shared_defaults
    r5_shared_defaults(ctx, rid="C07.R5")
    # sampling-based personalisation: which draws are kept is decided by the iteration count alone - a test on the (cohort-wide) state
    # would make one subject's estimate depend on the other subjects' chains (same rule as C17.R2)
    from .c17 import r2_burn_in
    r2_burn_in(ctx, rid="C07.R6", title="draws are kept according to the iteration count only (never according to the cohort's state)")
    r7_no_cohort_wide_decision(ctx)
    # the proposal scale of an individual adapts to its own acceptance history only: the blocks rescaled are selected by the (elementwise)
    # band test on the mean acceptance, never by positions (same rule as C19.R3, decided on the same code)
    from .c19 import r3_std
    r3_std(ctx, rid="C07.R8", title="each individual's proposal scale adapts to its own acceptance history (mask = elementwise band test; no positional index)")
    # the layout of one individual's event data (number of event types) never depends on what the rest of the cohort contains (same rule as C14.R6)
    from .c14 import r6_configured_event_count
    r6_configured_event_count(ctx, rid="C07.R9")
    # the individual sampler's decision for one individual uses that individual's terms only: no reduction over the individuals (a cohort-wide
    # maximum, mean, normalisation ...) enters the acceptance ratio (same rule as C03.R5b)
    from .c03 import r5b_no_cross_individual_weights
    r5b_no_cross_individual_weights(ctx, rid="C07.R10")
    # ... and the per-individual outcome of the decision is what is acted upon: a rewriting of it under a cohort-wide condition makes an
    # individual's decision depend on the others (same rule as C03.R2b)
    from .c03 import r2b_outcome_used_as_drawn
    r2b_outcome_used_as_drawn(ctx, rid="C07.R11")
    # "personalized parameters depend only on that individual's own data": nothing of one cohort stays in the model for the next call -
    # after its cleaning the sampling-based personalisation writes into a clone only (same rule as C13.R3b)
    from .c13 import r3b_after_cleaning
    r13_fresh_samplers_every_run(ctx)
    # a value read from the state may be one memory cell shown to every individual (the expanded prior mode): written in place for some
    # individuals, it changes for all of them - and the tensor may also be the model's own parameter (same rule as C01.R4b)
    from ._shared import inplace_on_state_values
    ctx.rule("C07.R16", "no in-place write into a tensor read from a state (a broadcast view is shared by every individual)", 8)
    sites_, holders_ = inplace_on_state_values(ctx)
    for fn_, node_, desc_ in sites_:
        ctx.violation("C07.R16", fn_, node_, desc_ + ": the tensor can be a broadcast view shared by all individuals (and by the model's parameter), so the write made for some individuals is "
                      "seen by every other one - their start points and estimates then depend on another individual's data")
    for fn_, names_ in holders_:
        ctx.ok("C07.R16", fn_, fn_.node, f"locals aliasing state values {names_}: never written in place", construct=f"def {fn_.name}")
    # "position-indexed random draws": the per-subject working states (whose preparation draws the subject's starting point) are created in the
    # order of the cohort, not in an order computed from the subjects' data (same rule as C17.R1)
    # ... and the best draw of an individual is picked along that individual's own chain, component by component (same rule as C17.R3)
    from .c17 import r3_axes
    r3_axes(ctx, rid="C07.R15")
    from .c17 import r1_order
    r1_order(ctx, rid="C07.R14", title="per-subject states are prepared, and results collected, in the order of the cohort (a subject's random start does not depend on the others' data)")
    r3b_after_cleaning(ctx, state_writes(ctx), rid="C07.R12", why="the model keeps that cohort's data and estimates: the next personalisation on the same model starts every subject from "
                       "another individual's values, so a subject's result depends on the data of others")
    ctx.trust("joblib.Parallel preserves the order of its generator and runs each call on the arguments given")
    ctx.assume("population tensors broadcast along trailing axes (never aligned with the individual axis by coincidence)")


VARIANTS = [
    V("attach-ind-reduces-individuals", "src/leaspy/models/obs_models/_base.py", "self.dist.get_func_nll(self.name).then(sum_dim, but_dim=LVL_IND)", "self.dist.get_func_nll(self.name).then(sum_dim, but_dim=1)", "C07.R1"),
    V("regul-ind-transposed", "src/leaspy/variables/specs.py", "                            sum_dim, but_dim=LVL_IND\n                        )", "                            sum_dim, but_dim=LVL_IND\n                        ).then(torch.t)", "C07.R1"),
    V("shared-state", "src/leaspy/algo/personalize/scipy_minimize.py", "            states[idx] = state.clone(disable_auto_fork=True)", "            states[idx] = state", "C07.R2"),
    V("whole-dataset-per-subject", "src/leaspy/algo/personalize/scipy_minimize.py", "idx: Dataset(data[[idx]], no_warning=True) for idx in dataset.indices", "idx: Dataset(data, no_warning=True) for idx in dataset.indices", "C07.R2"),
    V("job-draws", "src/leaspy/algo/personalize/scipy_minimize.py", "        obj = self.obj_with_jac if with_jac else self.obj_no_jac\n", "        obj = self.obj_with_jac if with_jac else self.obj_no_jac\n        _ = torch.rand(())\n", "C07.R3"),
    V("shared-std", "src/leaspy/samplers/gibbs.py", "        return (self.n_patients,)\n", "        return ()\n", "C07.R4"),
    V("model-mixes-individuals", "src/leaspy/models/time_reparametrized.py", "        return alpha * (t - tau)\n", "        return alpha * (t - tau.mean())\n", "C07.R1"),
    V("cohort-wide-restart", "src/leaspy/algo/personalize/mcmc.py", "        return state\n", "        if not torch.isfinite(state.get_tensor_value('nll_attach_ind')).all():\n            state.put_individual_latent_variables(LatentVariableInitType.PRIOR_SAMPLES, n_individuals=dataset.n_individuals)\n        return state\n", "C07.R7"),
    V("silent-rename-states", "src/leaspy/algo/personalize/scipy_minimize.py", "states", "per_subject", None, count=6),
]
