"""C14 - data ingestion yields one canonical tensor form and rejects malformed input."""
from __future__ import annotations

import ast

from ..astq import Canon, U, kwarg, raised_class_name, statements, store_targets, unify
from ..cfg import CFG, header_walk
from ..index import AnalysisError, root_name, walk_no_nested
from ..selftest import V

PROP = "C14"
LEVEL_TEXT = (
    "Static reader-discipline check over the five dataframe readers, IndividualData and Dataset: (R1) read() rebinds its table parameter to a deep copy before any "
    "other use, and every in-place pandas operation / column store in the reader classes acts on an object derived from a copy or on the parameter of a private "
    "method only reachable after that copy; (R2) every raise of the reader classes is a LeaspyDataInputError, no assert validates the caller's table, and the refusal "
    "inventory (duplicate rows, NaN/inf/non-numeric TIME, non-numeric or infinite values, identifier dtype / NaN / negative / empty, event <= 0, non-integer event flag, "
    "several events per subject, event before the last visit, covariate rules, empty table) is complete; (R3) ordering facts: TIME is rounded before the uniqueness test, "
    "individuals are grouped with sort=False (first appearance), observations are inserted by bisection and an existing age is refused, the mask is padding * not-NaN "
    "with NaNs zero-filled, counts derive from the mask, to_pandas restores NaN from the mask before sorting. NOT decided: pandas semantics, single-precision round trip."
)

PKG = "leaspy.io.data"
READERS = ["AbstractDataframeDataReader", "VisitDataframeDataReader", "EventDataframeDataReader", "JointDataframeDataReader", "CovariateDataframeDataReader"]


def _reader_funcs(ctx):
    out = []
    for name in READERS:
        k = ctx.ix.find_class(name)
        for b in ctx.ix.classes[k].body:
            if isinstance(b, ast.FunctionDef):
                out.append(ctx.ix.funcs[(k[0], f"{k[1]}.{b.name}")])
    return out


def r1_copy(ctx, rid="C14.R1"):
    ctx.rule(rid, "the caller's table is copied before anything else; in-place operations only touch copies", 6)
    ix = ctx.ix
    read = ix.func(f"{PKG}.abstract_dataframe_data_reader", "AbstractDataframeDataReader.read", rid)
    cfg = CFG(read.node)
    p = [a.arg for a in read.node.args.args][1]
    copies = [n for n, st in cfg.stmt.items() if isinstance(st, ast.Assign) and U(st.targets[0]) == p and isinstance(st.value, ast.Call)
              and isinstance(st.value.func, ast.Attribute) and st.value.func.attr == "copy" and U(st.value.func.value) == p]
    if not copies:
        ctx.violation(rid, read, read.node, f"read() never rebinds `{p}` to a copy: cleaning steps modify the caller's table", construct="def read")
    else:
        c = copies[0]
        deep = kwarg(cfg.stmt[c].value, "deep")
        ctx.check(deep is None or U(deep) == "True", rid, read, cfg.stmt[c], "deep copy", "shallow copy: in-place edits of values still reach the caller's table", construct="deep copy")
        bad = None
        for n, st in cfg.stmt.items():
            if st is None or n == c:
                continue
            uses = [x for x in header_walk(st) if isinstance(x, ast.Name) and x.id == p]
            if not uses:
                continue
            if isinstance(st, ast.If) and "isinstance" in U(st.test):
                continue
            if not cfg.dominates(c, n):
                bad = st
        ctx.check(bad is None, rid, read, cfg.stmt[c], "the copy dominates every other use of the table",
                  f"`{U(bad)[:70] if bad else ''}` uses the caller's table before it is copied")
    # in-place operations in the reader classes
    for f in _reader_funcs(ctx):
        params = [a.arg for a in f.node.args.args + f.node.args.kwonlyargs if a.arg not in ("self", "cls")]
        local_copies = set()
        for st in statements(f.node):
            if isinstance(st, ast.Assign) and isinstance(st.targets[0], ast.Name) and isinstance(st.value, ast.Call):
                v = st.value
                if isinstance(v.func, ast.Attribute) and v.func.attr in ("copy", "astype", "dropna", "groupby", "join", "reset_index", "set_index", "drop", "first", "max", "to_frame", "fillna", "where"):
                    local_copies.add(st.targets[0].id)
        sites = []
        for x in walk_no_nested(f.node):
            if isinstance(x, ast.Call) and any(k.arg == "inplace" and U(k.value) == "True" for k in x.keywords):
                sites.append((x, root_name(x.func), "inplace=True"))
        for st in statements(f.node):
            if isinstance(st, (ast.Assign, ast.AugAssign)):
                for t in store_targets(st):
                    if isinstance(t, ast.Subscript) and root_name(t) not in ("self", None):
                        sites.append((st, root_name(t), "column / cell store"))
        for node, root, how in sites:
            public = not f.name.startswith("_")
            if root in local_copies or _rebound_to_copy_before(f, root, node):
                ctx.ok(rid, f, node, f"{how} on `{root}`, a copy made in this function")
            elif root in params and not public:
                ctx.ok(rid, f, node, f"{how} on the parameter of private `{f.name}` (only reached from read() after the copy)")
            elif root in params:
                ctx.violation(rid, f, node, f"{how} on `{root}`, the table handed to public `{f.name}`: the caller's table is modified")
            else:
                ctx.ok(rid, f, node, f"{how} on local `{root}`")
    # private mutators are only called from inside the reader package
    for f in _reader_funcs(ctx):
        if f.name in ("_set_index", "_clean_index", "_check_TIME") and f.cls[1] in ("AbstractDataframeDataReader", "VisitDataframeDataReader"):
            callers = [g for g in ix.iter_funcs() for c in ast.walk(g.node) if isinstance(c, ast.Call) and isinstance(c.func, ast.Attribute) and c.func.attr == f.name
                       and not g.mod.startswith(PKG)]
            ctx.check(not callers, rid, f, f.node, "mutating helper only called inside io.data", f"mutating helper called from {[g.qual for g in callers][:2]} without the copy of read()",
                      construct=f"callers of {f.name}")


def _rebound_to_copy_before(f, name, node) -> bool:
    for st in statements(f.node):
        if isinstance(st, ast.Assign) and isinstance(st.targets[0], ast.Name) and st.targets[0].id == name and isinstance(st.value, ast.Call) \
                and isinstance(st.value.func, ast.Attribute) and st.value.func.attr == "copy" and st.lineno < getattr(node, "lineno", 0):
            return True
    return False


INVENTORY = [
    ("AbstractDataframeDataReader._clean_index", (".index.is_unique",), "duplicate rows"),
    ("AbstractDataframeDataReader._check_ID", ("infer_dtype(", " not in "), "identifier dtype"),
    ("AbstractDataframeDataReader._check_ID", (".isna().any()",), "missing identifier"),
    ("AbstractDataframeDataReader._check_ID", (" < 0).any()",), "negative integer identifier"),
    ("AbstractDataframeDataReader._check_ID", (".str.len() == 0).any()",), "empty string identifier"),
    ("AbstractDataframeDataReader._clean_numeric_data", ("_check_numeric_type(", ".dtypes"), "non-numeric columns"),
    ("AbstractDataframeDataReader._clean_numeric_data", ("len(", "!= 0"), "infinite values"),
    ("AbstractDataframeDataReader.read", ("not isinstance(", "pd.DataFrame)"), "not a table"),
    ("VisitDataframeDataReader._check_TIME", ("not $0._check_numeric_type(",), "non-numeric TIME"),
    ("VisitDataframeDataReader._check_TIME", (".isna().any()",), "NaN / inf TIME"),
    ("VisitDataframeDataReader._check_headers", ("len(", "> 0"), "missing ID / TIME column"),
    ("VisitDataframeDataReader._clean_dataframe", "$0.n_visits == 0", "empty table"),
    ("VisitDataframeDataReader._clean_dataframe", "$0.dimension < 1", "no feature"),
    ("EventDataframeDataReader._clean_dataframe", ("[$0.event_time_name] > 0", ".all()"), "event time <= 0"),
    ("EventDataframeDataReader._clean_dataframe", "astype(int)", "non-integer event flag"),
    ("EventDataframeDataReader._clean_dataframe", "nunique()", "several events per subject"),
    ("EventDataframeDataReader._clean_dataframe", (".columns.tolist() !=",), "unexpected event columns"),
    ("EventDataframeDataReader._clean_dataframe", ("$0.nb_events", " != "), "configured number of events differs from the data"),
    ("EventDataframeDataReader._clean_dataframe", ("not $0.nb_events",), "no event at all and no configured number"),
    ("JointDataframeDataReader._clean_dataframe", "index.equals", "subjects without visit or event"),
    ("JointDataframeDataReader._clean_dataframe", "-$0.tol_diff", "event before the last visit"),
    ("CovariateDataframeDataReader._clean_dataframe_covariates", "isna().any()", "missing covariate"),
    ("CovariateDataframeDataReader._clean_dataframe_covariates", "astype(int)", "non-integer covariate"),
    ("CovariateDataframeDataReader._clean_dataframe_covariates", "nunique()[$0.covariate_names]", "covariate varying within a subject"),
    ("CovariateDataframeDataReader._clean_dataframe_covariates", "< 2", "covariate without variability"),
]


def r2_refusals(ctx):
    ctx.rule("C14.R2", "every refusal of the readers is a LeaspyDataInputError; no assert on the caller's table; inventory complete", 40)
    ix = ctx.ix
    funcs = _reader_funcs(ctx)
    ad = ix.func(f"{PKG}.individual_data", "IndividualData.add_observations", "C14.R2")
    for f in funcs + [ad]:
        for st in statements(f.node):
            if isinstance(st, ast.Raise):
                if st.exc is None:
                    continue
                cls = raised_class_name(st)
                ctx.check(cls == "LeaspyDataInputError", "C14.R2", f, st, "data-input error", f"malformed input is refused with {cls}, not LeaspyDataInputError")
            if isinstance(st, ast.Assert) and f in funcs:
                names = {n.id for n in ast.walk(st.test) if isinstance(n, ast.Name)}
                if any(n.startswith("df") or n in ("s", "columns") for n in names):
                    ctx.violation("C14.R2", f, st, "an assert validates the caller's table: AssertionError / ValueError (or nothing under python -O) instead of LeaspyDataInputError")
    by_qual = {f.qual: f for f in funcs}
    for qual, needle, what in INVENTORY:
        f = by_qual.get(qual)
        if f is None:
            raise AnalysisError("C14.R2", f"anchor vanished: {qual}")
        cfg = CFG(f.node)
        cn = Canon(f.node)
        toks = needle if isinstance(needle, tuple) else (needle,)
        cands = []
        for r in cfg.nodes(lambda s: isinstance(s, ast.Raise)):
            chain = [(h, cn.text(cfg.stmt[h].test), lab) for h, lab in cfg.if_guards(r)]
            if any(lab and all(t in g for t in toks) for _, g, lab in chain):
                cands.append((r, chain))
        ctx.check(bool(cands), "C14.R2", f, f.node, f"refusal present: {what}", f"the refusal of `{what}` (a raise guarded by a test containing {needle}) is gone: such tables are silently accepted",
                  construct=f"refusal: {what}")
        # the refusal does not depend on the row order of the table: its test (with the definitions it reads) uses no positional pick
        # (`.last()`, `.first()`, `.iloc[..]`, `.head()`, `.tail()`, `.nth()`) of the caller's rows; `.first().index` only reads the group keys
        import re as _re
        POSITIONAL = _re.compile(r"\.(last|first|nth|head|tail)\((?:[^()]*)\)(?!\.index)|\.iloc\[|\.iat\[|\.values\[-?\d+\]")
        for r, chain in cands:
            for h, g, lab in chain:
                if lab and all(t in g for t in toks):
                    m_ = POSITIONAL.search(g)
                    if m_:
                        ctx.violation("C14.R2", f, cfg.stmt[h], f"the refusal of `{what}` reads the table by position (`{m_.group(0)}`): whether a malformed table is refused depends on the order "
                                      "of its rows", construct=f"refusal order-independent: {what}")
                    else:
                        ctx.ok("C14.R2", f, cfg.stmt[h], f"refusal of {what}: no positional pick of rows", construct=f"refusal order-independent: {what}")
        # the refusal is unconditional: on the way to the raise no other test has to hold (beyond the confirmed context), and every test
        # that has to fail is itself a refusal (its branch raises)
        ctxt = CONTEXT.get(what, set())
        ctxt = ctxt | {_re.sub(r"%\d+", "%", c_) for c_ in ctxt}
        for r, chain in cands:
            for h, g, lab in chain:
                own = all(t in g for t in toks)
                g = g if g in ctxt or ("not:" + g) in ctxt else _re.sub(r"%\d+", "%", g)
                if lab and not own and g not in ctxt:
                    ctx.violation("C14.R2", f, cfg.stmt[h], f"the refusal of `{what}` now only fires when `{g[:90]}` also holds: malformed tables for which it does not are silently accepted",
                                  construct=f"refusal unconditional: {what}")
                elif not lab and not own and ("not:" + g) not in ctxt and not _branch_always_raises(cfg.stmt[h]):
                    ctx.violation("C14.R2", f, cfg.stmt[h], f"the refusal of `{what}` is skipped when `{g[:90]}` holds (that branch does not refuse): such tables are silently accepted",
                                  construct=f"refusal unconditional: {what}")
        if cands:
            ctx.ok("C14.R2", f, cands[0][0], f"refusal of {what}: no additional condition on the way to the raise", construct=f"refusal unconditional: {what}")


# confirmed positive context of a refusal (tests that legitimately have to hold as well), `not:<test>` = a test that has to fail whose branch does not raise
CONTEXT = {
    "configured number of events differs from the data": {"not:not $0.nb_events", "not:%[$0.event_bool_name].max() == 0", "not:% == 0"},
    "no event at all and no configured number": {"%[$0.event_bool_name].max() == 0", "% == 0"},
    "negative integer identifier": {"pd.api.types.infer_dtype($1) == 'integer'"},
    "empty string identifier": {"pd.api.types.infer_dtype($1) == 'string'", "not:pd.api.types.infer_dtype($1) == 'integer'"},  # if integer: ... elif string: ...
    "event before the last visit": {"not:$1.reset_index().groupby('ID').max()[~($1.reset_index().groupby('ID').max()[$0.event_time_name] - $1.reset_index().groupby('ID').max()['TIME'] >= -$0.tol_diff)][$0.event_bool_name].sum() == 0"},
}


def _branch_always_raises(if_node) -> bool:
    def ends(body):
        if not body:
            return False
        last = body[-1]
        if isinstance(last, ast.Raise):
            return True
        if isinstance(last, ast.If):
            return ends(last.body) and ends(last.orelse)
        return False
    return isinstance(if_node, ast.If) and ends(if_node.body)


def r3_ordering(ctx):
    ctx.rule("C14.R3", "ordering / canonical-form facts of the ingestion", 9)
    ix = ctx.ix
    A = f"{PKG}.abstract_dataframe_data_reader"
    ci = ix.func(A, "AbstractDataframeDataReader._clean_index", "C14.R3")
    cfg = CFG(ci.node)
    si = [n for n, st in cfg.stmt.items() if st is not None and any(isinstance(c, ast.Call) and U(c.func) == "self._set_index" for c in header_walk(st))]
    uq = [n for n, st in cfg.stmt.items() if isinstance(st, ast.If) and "is_unique" in U(st.test)]
    ctx.check(bool(si) and bool(uq) and all(cfg.dominates(si[0], u) for u in uq), "C14.R3", ci, cfg.stmt[uq[0]] if uq else ci.node, "uniqueness tested on the (rounded) index",
              "the uniqueness test runs before the index (with rounded ages) is built: two visits that differ by less than the rounding are accepted as distinct")
    vs = ix.func(f"{PKG}.visit_dataframe_data_reader", "VisitDataframeDataReader._set_index", "C14.R3")
    vcfg = CFG(vs.node)
    rnd = [n for n, st in vcfg.stmt.items() if isinstance(st, ast.Assign) and U(st.targets[0]) in ("df['TIME']", "df.loc[:, 'TIME']") and "round(" in U(st.value) and "time_rounding_digits" in U(st.value)]
    sidx = [n for n, st in vcfg.stmt.items() if st is not None and any(isinstance(c, ast.Call) and isinstance(c.func, ast.Attribute) and c.func.attr == "set_index" and "'TIME'" in U(c) and "'ID'" in U(c)
                                                                        and U(c.func.value) == "df" for c in header_walk(st))]
    ctx.check(bool(rnd) and bool(sidx) and vcfg.dominates(rnd[0], sidx[0]), "C14.R3", vs, vcfg.stmt[rnd[0]] if rnd else vs.node, "TIME rounded (time_rounding_digits) before it becomes the index",
              "TIME is not rounded before indexing: near-duplicate visits are not detected and ages are not canonical")
    chk = [n for n, st in vcfg.stmt.items() if st is not None and any(isinstance(c, ast.Call) and U(c.func) == "self._check_TIME" for c in header_walk(st))]
    ctx.check(bool(chk) and bool(rnd) and vcfg.dominates(chk[0], rnd[0]), "C14.R3", vs, vcfg.stmt[chk[0]] if chk else vs.node, "TIME validated before rounding", "TIME is not validated before use", construct="TIME check first")
    read = ix.func(A, "AbstractDataframeDataReader.read", "C14.R3")
    gb = [c for c in ast.walk(read.node) if isinstance(c, ast.Call) and isinstance(c.func, ast.Attribute) and c.func.attr == "groupby"]
    ok = bool(gb) and any(U(kwarg(c, "sort")) == "False" and U(kwarg(c, "level")) == "'ID'" for c in gb if kwarg(c, "sort") is not None)
    ctx.check(ok, "C14.R3", read, gb[0] if gb else read.node, "individuals grouped by ID with sort=False (order of first appearance)",
              "individuals are no longer grouped with sort=False: their order depends on the identifiers, not on first appearance")
    rcfg = CFG(read.node)
    clean_calls = [n for n, st in rcfg.stmt.items() if st is not None and any(isinstance(c, ast.Call) and U(c.func) in ("self._clean_index", "self._clean_numeric_data", "self._clean_dataframe") for c in header_walk(st))]
    loop = [n for n, st in rcfg.stmt.items() if isinstance(st, ast.For) and "groupby" in U(st.iter)]
    ctx.check(len(clean_calls) == 3 and bool(loop) and all(rcfg.dominates(c, loop[0]) for c in clean_calls), "C14.R3", read, read.node, "index, numeric and layout cleaning all precede the loading loop",
              "a cleaning step is skipped on some path before individuals are loaded", construct="cleaning before loading")
    # row-level value checks run on every row, i.e. before the table is collapsed to one row per individual (`groupby('ID').first()` keeps
    # the first non-null value and `nunique()` ignores NaN: after the collapse a missing / bad value on some row is no longer visible)
    for mod_, qual_, needles in ((f"{PKG}.event_dataframe_data_reader", "EventDataframeDataReader._clean_dataframe",
                                  (("[$0.event_time_name] > 0", "event time <= 0"), ("astype(int)", "non-integer event flag"))),
                                 (f"{PKG}.covariate_dataframe_data_reader", "CovariateDataframeDataReader._clean_dataframe_covariates",
                                  (("isna().any()", "missing covariate"), ("astype(int)", "non-integer covariate")))):
        g_ = ix.func(mod_, qual_, "C14.R3")
        gcfg = CFG(g_.node)
        gcn = Canon(g_.node)
        collapses = [n for n, st in gcfg.stmt.items() if isinstance(st, ast.Assign) and any(isinstance(c, ast.Call) and isinstance(c.func, ast.Attribute) and c.func.attr in ("first", "last", "nth", "head", "tail", "max", "min", "mean", "agg", "aggregate")
                     and isinstance(c.func.value, ast.Call) and isinstance(c.func.value.func, ast.Attribute) and c.func.value.func.attr == "groupby" for c in ast.walk(st.value))]
        for needle, what in needles:
            hs = [h for r in gcfg.nodes(lambda s_: isinstance(s_, ast.Raise)) for h, lab in gcfg.if_guards(r) if lab and needle in gcn.text(gcfg.stmt[h].test)]
            if not hs:
                continue  # presence is decided by R2
            late = [c for c in collapses if any(gcfg.reachable(c, h) and not gcfg.reachable(h, c) for h in hs)]
            ctx.check(not late, "C14.R3", g_, gcfg.stmt[late[0]] if late else gcfg.stmt[hs[0]], f"`{what}` is checked on every row, before the per-individual collapse",
                      f"the table is collapsed to one row per individual (`{U(gcfg.stmt[late[0]])[:60] if late else ''}`) before `{what}` is checked: `first()` / `nunique()` skip missing values, so a bad or "
                      "missing value on some row of an individual is silently accepted", construct=f"row-level check before collapse: {what}")
    ad = ix.func(f"{PKG}.individual_data", "IndividualData.add_observations", "C14.R3")
    al = Canon(ad.node).lines(True, True)
    B_ = "bisect($0.timepoints, ?t)"
    ba = unify(al, ["for (zip($1, $2), (?t, ?o))", "?idx = " + B_, f"$0.timepoints = np.concatenate([$0.timepoints[:{B_}], [?t], $0.timepoints[{B_}:]])",
                    "$0.observations = np.concatenate([$0.observations[:?idx], [?o], $0.observations[?idx:]])"]) \
        or unify(al, ["for (zip($1, $2), (?t, ?o))", "?idx = " + B_, "$0.timepoints = np.concatenate([$0.timepoints[:?idx], [?t], $0.timepoints[?idx:]])",
                      "$0.observations = np.concatenate([$0.observations[:?idx], [?o], $0.observations[?idx:]])"])
    as_ = " ".join(al)
    restricted = [c for c in ast.walk(ad.node) if isinstance(c, ast.Call) and U(c.func) in ("bisect", "bisect.bisect", "bisect_right", "bisect_left", "bisect.bisect_right", "bisect.bisect_left", "np.searchsorted")
                  and (len(c.args) > 2 or any(k.arg in ("lo", "hi", "sorter") and U(k.value) not in ("0", "None") for k in c.keywords))]
    if restricted:
        ctx.violation("C14.R3", ad, restricted[0], f"`{U(restricted[0])[:70]}` searches only a sub-range of the ages already stored: the insertion index is not the sorted position of the new age "
                      "(visits given neither in ascending nor descending order end up unsorted)", construct="sorted insertion of ages")
    elif ba is not None:
        ctx.check(ba["#1"] < ba["#2"], "C14.R3", ad, ad.node, "ages inserted at the bisection index (computed on the ages before insertion)", "the insertion index is computed after the age was inserted", construct="sorted insertion of ages")
        ctx.ok("C14.R3", ad, ad.node, "values inserted at the same index as their age", construct="sorted insertion of values")
    elif not any(t in as_ for t in ("bisect", "searchsorted", "sort")):
        ctx.violation("C14.R3", ad, ad.node, "visits are appended without keeping the ages sorted", construct="sorted insertion of ages")
    elif not any(t in as_ for t in ("bisect($0.timepoints", "searchsorted", "argsort")):
        ctx.violation("C14.R3", ad, ad.node, "values are not inserted at the index of their age: ages and values get misaligned", construct="sorted insertion of values")
    else:
        idx = unify(al, ["?idx = bisect($0.timepoints, ?t)"])
        mis = idx is not None and sum(1 for ln in al if ("$0.timepoints = " in ln or "$0.observations = " in ln) and "concatenate" in ln and idx["idx"] in ln) < 2
        if mis:
            ctx.violation("C14.R3", ad, ad.node, "ages and values are not both inserted at the bisection index of the age: ages and values get misaligned", construct="sorted insertion of values")
        else:
            ctx.unknown("C14.R3", ad, ad.node, "the sorted insertion is neither the confirmed form nor lacks an essential part: cannot decide statically", construct="sorted insertion of ages")
    acfg = CFG(ad.node)
    dup = any(isinstance(acfg.stmt[h], ast.If) and " in self.timepoints" in U(acfg.stmt[h].test) and lab for r in acfg.nodes(lambda s: isinstance(s, ast.Raise)) for h, lab in acfg.if_guards(r))
    ctx.check(dup, "C14.R3", ad, ad.node, "an existing age is refused", "adding an already present age is no longer refused", construct="duplicate age refused")
    r3b_dataset_mask(ctx)


def r3b_dataset_mask(ctx, rid="C14.R3"):
    """Construction of the padded value tensor and of the mask in Dataset (also run by C06: the mask is the root of every masked aggregate)."""
    ix = ctx.ix
    ds = f"{PKG}.dataset"
    cv = ix.func(ds, "Dataset._construct_values", rid)
    cc = Canon(cv.node)
    L = cc.lines(False, True)
    FILL = ["?v = torch.zeros(($0.n_individuals, $0.n_visits_max, $0.dimension))", "?pm = torch.zeros_like(?v)", "for (enumerate($0.n_visits_per_individual), (?i, ?n))",
            "?iv = torch.tensor(np.array($1[?i].observations), dtype=torch.float32)", "?v[?i, 0:?n, :] = ?iv", "?pm[?i, 0:?n, :] = 1.0", "$0.values = ?v"]
    FILL2 = FILL[:3] + ["?v[?i, 0:?n, :] = torch.tensor(np.array($1[?i].observations), dtype=torch.float32)", "?pm[?i, 0:?n, :] = 1.0", "$0.values = ?v"]
    b = unify(L, FILL) or unify(L, FILL2)
    if b is None:
        # near misses of the confirmed form are decided: same statements, another slice start or another fill constant
        def gen(pats):
            out = []
            for x in pats:
                x = x.replace("?v[?i, 0:?n, :]", "?v[?i, ?{lo}:?n, :]").replace("?pm[?i, 0:?n, :] = 1.0", "?pm[?i, ?{lo2}:?n, :] = ?{one}")
                out.append(x)
            return out
        g_ = unify(L, gen(FILL)) or unify(L, gen(FILL2))
        if g_ is not None and (g_["lo"] != "0" or g_["lo2"] != "0" or g_["one"] not in ("1.0", "1", "True")):
            ctx.violation(rid, cv, cv.node, f"values are filled on rows `{g_['lo']}:nb_vis`, the padding mask on rows `{g_['lo2']}:nb_vis` with value `{g_['one']}` (rows 0:nb_vis and 1 expected): real visits are masked out, "
                          "or the mask is not a 0/1 indicator (aggregates are weighted)", construct="aligned fill")
            return
    has_tokens = any("isnan" in ln for ln in L) and any(".mask = " in ln for ln in L)
    if b is None:
        ctx.anchor(False, rid, cv, cv.node, "values and padding mask filled on the same rows [i, 0:nb_vis, :]", "per-individual fill of values / padding mask", construct="aligned fill")
    else:
        ctx.ok(rid, cv, cv.node, "values and padding mask filled on the same rows [i, 0:nb_vis, :]", construct="aligned fill")
        vb = {k: b[k] for k in ("v", "pm")}
        filled = (unify(L, ["?pm[?i, 0:?n, :] = 1.0"], {k: b[k] for k in ("pm", "i", "n")}) or {"#0": 10 ** 6})["#0"]
        m = unify(L, ["?nn = (~torch.isnan(?v)).float()", "?m = ?pm * ?nn", "$0.mask = ?m"], vb) or unify(L, ["?m = ?pm * (~torch.isnan(?v)).float()", "$0.mask = ?m"], vb) \
            or unify(L, ["?nn = (~torch.isnan(?v)).float()", "?m = ?nn * ?pm", "$0.mask = ?m"], vb)
        z = unify(L, ["?v[torch.isnan(?v)] = 0.0"], vb) or unify(L, ["?v = torch.nan_to_num(?v...)"], vb)
        if m is None:
            near = unify(L, ["?nn = (~torch.isnan(?v)).float()", "?m = ?pm ?{op} ?nn", "$0.mask = ?m"], vb) or unify(L, ["?nn = (~torch.isnan(?v)).float()", "?m = ?nn ?{op} ?pm", "$0.mask = ?m"], vb)
            if near is not None and near["op"] in ("+", "-", "/", "|", "^", "//", "%"):
                ctx.violation(rid, cv, cv.node, f"the dataset mask is `padding {near['op']} not-NaN`, not their product: padded or missing entries get a non-zero weight", construct="mask construction")
                m = {"#0": near["#1"], "m": near["m"]}
        if m is None:
            from ..astq import Inliner
            full = [Inliner(cv.node).text(st.value) for st in statements(cv.node) if isinstance(st, ast.Assign) and U(st.targets[0]) == "self.mask"]
            if full and "isnan" in full[0] and ("zeros_like" in full[0] or "padding" in full[0]):
                ctx.unknown(rid, cv, cv.node, "the construction of the dataset mask is neither the confirmed form nor lacks an essential part: cannot decide statically", construct="mask construction")
            else:
                ctx.violation(rid, cv, cv.node, "the dataset mask no longer combines the padding mask with the not-NaN mask: missing (or padded) entries count as observed", construct="mask construction")
        else:
            ctx.check(filled < m["#0"], rid, cv, cv.node, "mask = padding mask * not-NaN, computed after the per-individual fill",
                      "the not-NaN mask is computed before the values are filled in: every entry counts as observed", construct="mask construction")
            ctx.check(z is not None and m["#0"] < z["#0"], rid, cv, cv.node, "NaNs zero-filled in the value tensor, after the not-NaN mask was taken",
                      "NaNs are no longer zero-filled in the value tensor (a NaN at a masked position would propagate), or are zero-filled before the mask is taken (missing entries count as observed)", construct="NaN zero-fill")
            c = unify(L, ["$0.n_observations_per_ind_per_ft = ?m.sum(dim=1).int()"], {"m": m["m"]})
            ctx.check(c is not None, rid, cv, cv.node, "observation counts derive from the mask", "observation counts no longer derive from the mask", construct="counts from mask")
    gv = ix.func(ds, "Dataset.get_values_patient", rid)
    gl = Canon(gv.node).lines(True, True)
    IDX = "$1, :$0.n_visits_per_individual[$1]"
    ok = unify(gl, [f"?out = ?src[{IDX}, ...].clone().detach()", f"?out[$0.mask[{IDX}, :] == 0, ...] = float('nan')", "return ?out"]) is not None \
        or unify(gl, [f"?out = ?src[{IDX}, ...].detach().clone()", f"?out[$0.mask[{IDX}, :] == 0, ...] = float('nan')", "return ?out"]) is not None
    gs = " ".join(gl)
    near = None if ok else (unify(gl, [f"?out = ?src[{IDX}, ...].clone().detach()", f"?out[$0.mask[{IDX}, :] ?{{op}} ?{{z}}, ...] = float('nan')", "return ?out"])
                            or unify(gl, [f"?out = ?src[{IDX}, ...].detach().clone()", f"?out[$0.mask[{IDX}, :] ?{{op}} ?{{z}}, ...] = float('nan')", "return ?out"]))
    if near is not None and (near["op"], near["z"]) not in (("==", "0"), ("==", "0.0"), ("<", "1"), ("!=", "1"), ("<=", "0")):
        ctx.violation(rid, gv, gv.node, f"get_values_patient writes NaN where `mask {near['op']} {near['z']}` (mask == 0 expected): observed values are read back as missing and missing ones as zeros",
                      construct="NaN restored from mask")
    elif ok:
        # ... for every dataset: the write is under no condition (a shortcut 'when nothing is missing' needs a test that is exactly that)
        gcfg = CFG(gv.node)
        nanw = [n for n, st in gcfg.stmt.items() if isinstance(st, ast.Assign) and isinstance(st.targets[0], ast.Subscript) and "nan" in U(st.value).lower()]
        gds = [(gcfg.stmt[h], lab) for n in nanw for h, lab in gcfg.if_guards(n)]
        if gds:
            ctx.violation(rid, gv, gds[0][0], f"the NaNs are only restored when `{U(gds[0][0].test)[:70]}`: for the datasets where the test fails although entries are missing, the zero-filled values "
                          "are read back as observations (`to_pandas` returns 0.0 where the table had NaN)", construct="NaN restored from mask")
        else:
            ctx.ok(rid, gv, gv.node, "NaN restored from the mask on a clone", construct="NaN restored from mask")
    elif "$0.mask" in gs and "nan" in gs and ("clone" in gs or "copy" in gs):
        ctx.unknown(rid, gv, gv.node, "get_values_patient is neither the confirmed form nor lacks an essential part: cannot decide statically", construct="NaN restored from mask")
    else:
        ctx.violation(rid, gv, gv.node, "get_values_patient no longer restores NaN from the mask on a copy (zero-filled values would be read back as observations, or the dataset modified)", construct="NaN restored from mask")
    tp_ = ix.func(ds, "Dataset.to_pandas", rid)
    src = U(tp_.node)
    ok = ".get_values_patient(" in src and "sort_index()" in src
    ctx.check(ok, rid, tp_, tp_.node, "to_pandas uses the NaN-restored values and sorts the index", "to_pandas no longer uses the NaN-restored values / a sorted index", construct="to_pandas")


def r2b_infinite_time(ctx):
    """'NaN / inf TIME' is one refusal in the inventory (a test on `.isna()`): it covers the infinite values only because they are mapped
    to NaN just before - or tested on their own."""
    ctx.rule("C14.R2b", "infinite visit times are refused (mapped to NaN before the NaN test, or tested directly)", 1)
    f = ctx.ix.func(f"{PKG}.visit_dataframe_data_reader", "VisitDataframeDataReader._check_TIME", "C14.R2b")
    L = Canon(f.node).lines(False, True)
    b = unify(L, ["$1.replace([np.inf, -np.inf], np.nan, inplace=True)", "if $1.isna().any()"]) or unify(L, ["$1 = $1.replace([np.inf, -np.inf], np.nan)", "if $1.isna().any()"])
    if b is not None and b["#0"] < b["#1"]:
        ctx.ok("C14.R2b", f, f.node, "+inf and -inf are mapped to NaN before the NaN test", construct="infinite TIME")
        return
    text = "; ".join(L)
    ctx.form("C14.R2b", f, f.node, text, set(), [("np.inf", "isinf", "isfinite")], "infinite times refused",
             "`_check_TIME` no longer maps +/-inf to NaN before its NaN test (nor tests them): a table with an infinite visit time is accepted", construct="infinite TIME")


def r5_positional_access(ctx):
    """Dataset fills row i of its tensors from `data[i]` and labels it `data.iter_to_idx[i]`: an integer key of Data must always mean
    'the i-th individual' (identifiers can be integers too)."""
    ctx.rule("C14.R5", "Data[int] is positional, unconditionally; Dataset fills row i from data[i]", 3)
    g = ctx.ix.func(f"{PKG}.data", "Data.__getitem__", "C14.R5")
    L = Canon(g.node).lines(False, True)
    i0 = [i for i, ln in enumerate(L) if ln.startswith("if ") and "isinstance($1, int)" in ln]
    if not i0:
        ctx.anchor(False, "C14.R5", g, g.node, "", "integer branch of Data.__getitem__", construct="integer keys")
    else:
        test, nxt = L[i0[0]][3:], (L[i0[0] + 1] if i0[0] + 1 < len(L) else "")
        if test == "isinstance($1, int)" and nxt == "return $0.individuals[$0.iter_to_idx[$1]]" and i0[0] == 0:
            ctx.ok("C14.R5", g, g.node, "an integer key is a position (first test of the function, no side condition)", construct="integer keys")
        elif test != "isinstance($1, int)" and test.startswith("isinstance($1, int) and "):
            ctx.violation("C14.R5", g, g.node, f"an integer key is only taken as a position when `{test[len('isinstance($1, int) and '):][:70]}`: with integer identifiers `data[i]` can return another "
                          "individual than the i-th one, so the rows of Dataset no longer match Dataset.indices", construct="integer keys")
        elif i0[0] != 0 and any("$0.individuals[$1]" in ln for ln in L[:i0[0]]):
            ctx.violation("C14.R5", g, g.node, "a key is looked up as an identifier before integers are taken as positions: with integer identifiers `data[i]` is not the i-th individual", construct="integer keys")
        else:
            ctx.anchor(False, "C14.R5", g, g.node, "", "integer branch of Data.__getitem__ (`return self.individuals[self.iter_to_idx[key]]`)", construct="integer keys")
    ds = f"{PKG}.dataset"
    for fn, pat in (("Dataset._construct_values", "np.array($1[?i].observations)"), ("Dataset._construct_timepoints", "torch.tensor($1[?i].timepoints)")):
        f = ctx.ix.func(ds, fn, "C14.R5")
        Lf = Canon(f.node).lines(True, True)
        b = unify(Lf, ["for (enumerate(...), (?i, ?n))", f"...{pat}..."])
        ctx.anchor(b is not None and b["#0"] < b["#1"], "C14.R5", f, f.node, "row i is filled from data[i] (position in the reading order)", f"row filling of {fn}", construct=f"{fn}: row i from data[i]")


def r6_configured_event_count(ctx, rid="C14.R6"):
    """The number of event types of a joint dataset fixes the width of every individual's event arrays: when the caller configured it, it
    is never replaced by what the cohort happens to contain (one individual's arrays would depend on the other individuals' events)."""
    ctx.rule(rid, "a configured number of events is never overwritten from the data (writes of self.nb_events only when none was given)", 1)
    n = 0
    for f in _reader_funcs(ctx):
        if f.name == "__init__":
            continue
        cfg = CFG(f.node)
        cn = Canon(f.node)
        for nid, st in cfg.stmt.items():
            if isinstance(st, (ast.Assign, ast.AugAssign)) and any(U(t) == "self.nb_events" for t in store_targets(st)):
                n += 1
                guards = [(cn.text(cfg.stmt[h].test), lab) for h, lab in cfg.if_guards(nid)]
                ok = any((g in ("not $0.nb_events", "$0.nb_events is None", "$0.nb_events in (None, 0)") and lab) or (g in ("$0.nb_events", "$0.nb_events is not None") and not lab) for g, lab in guards)
                ctx.check(ok, rid, f, st, "inferred from the data only when no number was configured",
                          f"`{U(st)[:60]}` replaces a configured number of events by the one seen in the data: the width of each individual's event arrays then depends on the other individuals of the cohort")
    if n == 0:
        ctx.ok(rid, (f"{PKG}.event_dataframe_data_reader", "EventDataframeDataReader"), None, "the number of events is never inferred outside the constructor", construct="writers of nb_events")


def r7_column_writes_keep_rows(ctx):
    """pandas aligns a Series on the row labels of the table it is written into: a column computed from the table itself keeps its rows, a
    Series whose rows were re-labelled on the way (`reset_index`, `set_index`, `sort_values` ...) lands on other rows - or on none (NaN) -
    whenever the caller's table does not have the default 0..n-1 labels."""
    from ..astq import Inliner
    ctx.rule("C14.R7", "columns written back into the table are computed on the table's own rows (no re-labelled Series on the right-hand side)", 3)
    RELABEL = {"reset_index", "set_index", "sort_values", "sort_index", "reindex", "drop_duplicates", "groupby"}
    POSITIONAL = {"values", "to_numpy", "to_list", "tolist", "array"}
    n = 0
    for f in _reader_funcs(ctx):
        inl = Inliner(f.node)
        for st in statements(f.node):
            if not isinstance(st, ast.Assign):
                continue
            t = st.targets[0]
            # a column store `<table>[<column label>] = ...` (label: a string literal or one of the reader's `*_name` attributes)
            if not (isinstance(t, ast.Subscript) and isinstance(t.value, ast.Name) and t.value.id not in ("self", "cls")
                    and ((isinstance(t.slice, ast.Constant) and isinstance(t.slice.value, str)) or U(t.slice).endswith("_name") or isinstance(t.slice, ast.Name))):
                continue
            n += 1
            v = inl.resolve(st.value)
            # the outermost re-labelling call on the value path (through round / astype / arithmetic) decides; a positional export (`.values`) is safe
            bad = None
            stack = [v]
            while stack:
                e = stack.pop()
                if isinstance(e, ast.Attribute) and e.attr in POSITIONAL:
                    continue
                if isinstance(e, ast.Call) and isinstance(e.func, ast.Attribute):
                    if e.func.attr in POSITIONAL:
                        continue
                    if e.func.attr in RELABEL:
                        bad = e
                        break
                    stack.append(e.func.value)
                    stack.extend(a for a in e.args if isinstance(a, (ast.Call, ast.Attribute, ast.Subscript, ast.BinOp)))
                elif isinstance(e, ast.Call):
                    stack.extend(e.args)
                elif isinstance(e, ast.BinOp):
                    stack.extend([e.left, e.right])
                elif isinstance(e, ast.Subscript):
                    stack.append(e.value)
            ctx.check(bad is None, "C14.R7", f, st, f"`{U(t)}` computed on the table's own rows",
                      f"`{U(t)}` is assigned a Series whose rows were re-labelled (`.{bad.func.attr if bad is not None else ''}(...)`): pandas aligns it on the row labels of the table, so with a "
                      "permuted / filtered / concatenated input table the values land on other rows (other visits, other individuals) or become NaN")
    if n == 0:
        raise AnalysisError("C14.R7", "anchor vanished: no column write in the readers")


def r8_event_code_codec(ctx):
    """An observed event of type k (1-based) is read as a True at position k - 1 of the individual's event flags, and written back (to_pandas)
    as (position of the True) + 1; 0 means censored.  Reader and writer are inverse of each other - a writer that counts the observed events,
    or forgets the + 1, turns every event code >= 2 into another one."""
    ctx.rule("C14.R8", "event codes: reader sets position code - 1, writer returns position + 1 (0 = censored)", 2)
    rd = ctx.ix.func(f"{PKG}.event_dataframe_data_reader", "EventDataframeDataReader._load_individuals_data", "C14.R8")
    Lr = Canon(rd.node).lines(True, True)
    br = unify(Lr, ["?flags = [False] * $0.nb_events", "if ?{code} != 0", "?flags[?{code} - 1] = True", "$1.add_event(?times, ?flags)"])
    ctx.form("C14.R8", rd, rd.node, "; ".join(Lr), {"; ".join(Lr)} if br is not None and br["#0"] < br["#1"] < br["#2"] < br["#3"] else set(), ["[False] * $0.nb_events", " - 1] = True"],
             "reader: flags[code - 1] = True when code != 0", "the reader no longer turns the event code k into a True at position k - 1 of the event flags", construct="event code read")
    wr = ctx.ix.func(f"{PKG}.individual_data", "IndividualData._event_to_frame", "C14.R8")
    Lw = Canon(wr.node).lines(True, True)
    bw = unify(Lw, ["if $0.event_bool.sum() == 1", "?c = np.where($0.event_bool)[0][0] + 1", "if $0.event_bool.sum() == 0", "?c = 0", "?df = pd.DataFrame(data=[[$0.event_time[0], ?c]], ...)"])
    ok = bw is not None and all(bw[f"#{i}"] < bw[f"#{i + 1}"] for i in range(4))
    ctx.form("C14.R8", wr, wr.node, "; ".join(Lw), {"; ".join(Lw)} if ok else set(), ["np.where($0.event_bool)", " + 1"],
             "writer: code = position of the observed event + 1, 0 when censored",
             "the writer no longer returns (position of the observed event) + 1: the event code written by to_pandas is not the one that was read (every code >= 2 changes)",
             forbidden=[r"= int\(np\.sum\(\$0\.event_bool\)\)", r"= \$0\.event_bool\.sum\(\)"], construct="event code written")


# validators each concrete reader runs on every path of read() (computed from the code, confirmed by reading, frozen here)
MUST_RUN = {
    "VisitDataframeDataReader": ["AbstractDataframeDataReader._check_ID", "AbstractDataframeDataReader._clean_index", "AbstractDataframeDataReader._clean_numeric_data",
                                 "VisitDataframeDataReader._check_TIME", "VisitDataframeDataReader._check_headers", "VisitDataframeDataReader._clean_dataframe"],
    "EventDataframeDataReader": ["AbstractDataframeDataReader._check_ID", "AbstractDataframeDataReader._clean_index", "AbstractDataframeDataReader._clean_numeric_data",
                                 "EventDataframeDataReader._clean_dataframe"],
    "JointDataframeDataReader": ["AbstractDataframeDataReader._check_ID", "AbstractDataframeDataReader._clean_index", "AbstractDataframeDataReader._clean_numeric_data",
                                 "EventDataframeDataReader._clean_dataframe", "JointDataframeDataReader._clean_dataframe", "VisitDataframeDataReader._check_TIME",
                                 "VisitDataframeDataReader._check_headers", "VisitDataframeDataReader._clean_dataframe"],
    "CovariateDataframeDataReader": ["AbstractDataframeDataReader._check_ID", "AbstractDataframeDataReader._clean_index", "AbstractDataframeDataReader._clean_numeric_data",
                                     "CovariateDataframeDataReader._clean_dataframe_covariates", "VisitDataframeDataReader._check_TIME", "VisitDataframeDataReader._check_headers",
                                     "VisitDataframeDataReader._clean_dataframe"],
}
READER_ATTRS = {"visit_reader": "VisitDataframeDataReader", "event_reader": "EventDataframeDataReader"}


def r4_validators_run(ctx):
    """The refusals of R2 only protect a reader if the function holding them is actually run: for every concrete reader, every path
    through read() passes - directly or through a callee that itself always does - through each validator, before any individual is stored."""
    ctx.rule("C14.R4", "every validator runs on every path of read(), before the individuals are built (per concrete reader)", 25)
    ix = ctx.ix
    for attr, cn in READER_ATTRS.items():  # the delegation table is what the constructors say
        owners = [f for f in _reader_funcs(ctx) if f.name == "__init__" and any(isinstance(st, ast.Assign) and U(st.targets[0]) == f"self.{attr}" for st in statements(f.node))]
        for f in owners:
            ok = any(isinstance(st, ast.Assign) and U(st.targets[0]) == f"self.{attr}" and isinstance(st.value, ast.Call) and U(st.value.func) == cn for st in statements(f.node))
            ctx.anchor(ok, "C14.R4", f, f.node, f"self.{attr} is a {cn}", f"type of self.{attr}", construct=f"self.{attr}")

    def resolve(K, call):
        fn = call.func
        if isinstance(fn, ast.Attribute) and isinstance(fn.value, ast.Name) and fn.value.id in ("self", "cls"):
            m = ix.method(K, fn.attr)
            return [(K, m)] if m else []
        if isinstance(fn, ast.Attribute) and isinstance(fn.value, ast.Attribute) and U(fn.value.value) == "self" and fn.value.attr in READER_ATTRS:
            K2 = ix.find_class(READER_ATTRS[fn.value.attr])
            m = ix.method(K2, fn.attr) if K2 else None
            return [(K2, m)] if m else []
        return []

    memo = {}

    def must(K, f, target, seen=()):
        if f.qual == target:
            return True
        key = (K, f.key, target)
        if key in memo:
            return memo[key]
        if (K, f.key) in seen:
            return False
        cfg = CFG(f.node)
        nodes = []
        for n, st in cfg.stmt.items():
            if st is None:
                continue
            for c in header_walk(st):
                if isinstance(c, ast.Call) and any(must(K2, g, target, seen + ((K, f.key),)) for K2, g in resolve(K, c)):
                    nodes.append(n)
        r = bool(nodes) and cfg.all_paths_pass(cfg.entry, nodes)
        memo[key] = r
        return r

    for kn, targets in sorted(MUST_RUN.items()):
        K = ix.find_class(kn)
        if K is None:
            raise AnalysisError("C14.R4", f"anchor vanished: {kn}")
        rd = ix.method(K, "read")
        cfg = CFG(rd.node)
        loops = [n for n, st in cfg.stmt.items() if isinstance(st, ast.For) and any(isinstance(c, ast.Call) and isinstance(c.func, ast.Attribute) and c.func.attr == "_load_individuals_data" for c in ast.walk(st))]
        for t in targets:
            tc, tm = t.split(".")
            tk = ix.find_class(tc)
            if tk is None or (tk[0], t) not in ix.funcs:
                ctx.unknown("C14.R4", rd, rd.node, f"{kn}: the validator `{t}` no longer exists under that name (renamed or merged?): cannot decide whether its refusals still run", construct=f"{t} runs", instance=kn)
                continue
            ok = must(K, rd, t)
            ctx.check(ok, "C14.R4", rd, rd.node, f"{kn}: `{t}` runs on every path of read()",
                      f"{kn}.read() can complete without running `{t}`: the malformed tables it refuses are accepted by this reader", construct=f"{t} runs", instance=kn)
            # ... and before the individuals are stored
            direct = [n for n, st in cfg.stmt.items() if st is not None and any(isinstance(c, ast.Call) and any(must(K2, g, t) for K2, g in resolve(K, c)) for c in header_walk(st))]
            if ok and loops:
                ctx.check(any(cfg.dominates(d, loops[0]) for d in direct), "C14.R4", rd, cfg.stmt[loops[0]], f"{kn}: `{t}` runs before the individuals are built",
                          f"{kn}.read() builds the individuals before `{t}` has run: part of a refused table is already stored in the reader", construct=f"{t} before the individuals", instance=kn)


def r9_position_and_record_registered_together(ctx):
    """'each individual's rows stay its own': the reader stores the individuals in a dictionary (insertion order) and their positions in
    `iter_to_idx`; everything positional downstream (Dataset.indices, the rows of every tensor) pairs the two by order.  Both are therefore
    registered in the same loop, under the same key - numbering the individuals from another sequence than the one the records are
    created from labels the rows with other individuals' identifiers as soon as the two orders differ."""
    ctx.rule("C14.R9", "reader: an individual's record and its position are registered in the same loop iteration, under the same identifier", 1)
    f = ctx.ix.func(f"{PKG}.abstract_dataframe_data_reader", "AbstractDataframeDataReader.read", "C14.R9")
    ctx.analysed(f)
    cfg = CFG(f.node)
    rec = [n for n, st in cfg.stmt.items() if isinstance(st, ast.Assign) and isinstance(st.targets[0], ast.Subscript) and U(st.targets[0].value) == "self.individuals"]
    pos = [n for n, st in cfg.stmt.items() if isinstance(st, ast.Assign) and isinstance(st.targets[0], ast.Subscript) and U(st.targets[0].value) == "self.iter_to_idx"]
    if len(rec) != 1 or len(pos) != 1:
        ctx.unknown("C14.R9", f, f.node, f"{len(rec)} registration(s) of a record / {len(pos)} of a position found in read() (1 / 1 confirmed)", construct="record and position together")
        return

    def loop_of(n):
        ls = [h for h, lab in cfg.guards(n) if cfg.kind[h] == "loop" and any(x is cfg.stmt[n] for x in ast.walk(cfg.stmt[h]))]
        return ls[-1] if ls else None
    lr, lp = loop_of(rec[0]), loop_of(pos[0])
    same_loop = lr is not None and lr == lp
    same_key = U(cfg.stmt[rec[0]].targets[0].slice) == U(cfg.stmt[pos[0]].value)
    uncond = not [1 for n in (rec[0], pos[0]) for h, lab in cfg.if_guards(n) if lr is not None and any(x is cfg.stmt[h] for x in ast.walk(cfg.stmt[lr]))]
    ctx.check(same_loop and same_key and uncond, "C14.R9", f, cfg.stmt[pos[0]], "record and position registered together, for every individual of the loop",
              ("the positions `iter_to_idx` are filled in another loop than the records `individuals`" if not same_loop else
               "the position is registered under another identifier than the record" if not same_key else "one of the two registrations is conditional") +
              ": the order of the records and the numbering of the individuals can differ, and every positional consumer (Dataset.indices, rows of the tensors) then labels an individual's rows "
              "with another individual's identifier", construct="record and position together")


def rules(ctx):
    r1_copy(ctx)
    r2_refusals(ctx)
    r3_ordering(ctx)
    r2b_infinite_time(ctx)
    r5_positional_access(ctx)
    r6_configured_event_count(ctx)
    r7_column_writes_keep_rows(ctx)
    r8_event_code_codec(ctx)
    r4_validators_run(ctx)
    r9_position_and_record_registered_together(ctx)
    ctx.trust("pandas copy(deep=True), groupby(sort=False), round, is_unique semantics; bisect")


A = "src/leaspy/io/data/abstract_dataframe_data_reader.py"
VR = "src/leaspy/io/data/visit_dataframe_data_reader.py"
ER = "src/leaspy/io/data/event_dataframe_data_reader.py"
VARIANTS = [
    V("identifier-check-not-called", A, "        self._check_ID(df[\"ID\"])\n", "", "C14.R4"),
    V("time-check-only-for-sorted-reads", VR, "        self._check_TIME(df.set_index(\"ID\")[\"TIME\"])\n", "        if self.time_rounding_digits > 6:\n            self._check_TIME(df.set_index(\"ID\")[\"TIME\"])\n", "C14.R4"),
    V("no-copy-in-read", A, "        df = df.copy(deep=True)  # No modification on the input dataframe !\n", "", "C14.R1"),
    V("unique-before-rounding", A, "        df = self._set_index(df)\n        if not df.index.is_unique:", "        dup = not df.set_index([\"ID\", \"TIME\"]).index.is_unique\n        df = self._set_index(df)\n        if dup:", "C14.R3"),
    V("no-rounding", VR, "        df[\"TIME\"] = round(\n            df[\"TIME\"], self.time_rounding_digits\n        )  # avoid missing duplicates due to rounding errors\n", "", "C14.R3"),
    V("groupby-sorted", A, "df.groupby(level=\"ID\", sort=False)", "df.groupby(level=\"ID\")", "C14.R3"),
    V("assert-instead-of-raise", ER, """        if df_event.columns.tolist() != expected_columns:
            raise LeaspyDataInputError(
                f"The event columns should be exactly {expected_columns}, not {df_event.columns.tolist()}."
            )
""", "        assert df_event.columns.tolist() == expected_columns\n", "C14.R2"),
    V("inf-accepted", A, "        if len(df_inf_rows_and_cols) != 0:\n", "        if False:\n", "C14.R2"),
    V("negative-event-accepted", ER, "        if not (df_event[self.event_time_name] > 0).all():\n            raise LeaspyDataInputError(\"Events must be above 0\")\n", "", "C14.R2"),
    V("keyerror-for-duplicates", "src/leaspy/io/data/individual_data.py", "                raise LeaspyDataInputError(\n                    f\"Trying to overwrite timepoint {t} \"", "                raise KeyError(\n                    f\"Trying to overwrite timepoint {t} \"", "C14.R2"),
    V("silent-rename-event-local", ER, "df_event", "events", None, count=16),
    V("silent-rename-mask-local", "src/leaspy/io/data/dataset.py", "mask_missingvalues", "not_nan", None, count=2),
    V("unsorted-insertion", "src/leaspy/io/data/individual_data.py", "                index = bisect(self.timepoints, t)\n", "                index = len(self.timepoints)\n", "C14.R3"),
    V("last-visit-is-last-row", "src/leaspy/io/data/joint_dataframe_data_reader.py", "        df_test = df.reset_index().groupby(\"ID\").max()\n", "        df_test = df.reset_index(\"TIME\").groupby(\"ID\").last()\n", "C14.R2"),
    V("bisect-resumes-from-last-index", "src/leaspy/io/data/individual_data.py", "                index = bisect(self.timepoints, t)\n", "                index = bisect(self.timepoints, t, lo=0 if self.timepoints is None else min(len(self.timepoints), 1))\n", "C14.R3"),
    V("mask-ignores-nan", "src/leaspy/io/data/dataset.py", "        mask = padding_mask * mask_missingvalues", "        mask = padding_mask", "C14.R3"),
]
