#!/venv/bin/python
"""CLI: /venv/bin/python /verif/sa/check.py <Cxx> [--tier quick|thorough] [--repo DIR] [--replay FILE]

Decides the rules of one property on the *current* source tree of --repo
(default /repo).  Nothing of leaspy is imported or executed.

exit 0  every obligation ok (or only violations listed in known_findings.json)
exit 1  a violation not listed: `VIOLATION property=<id> replay=<path>`
exit 2  `ANALYSIS-ERROR ...` - the analyser cannot decide (never a VIOLATION line)
"""
from __future__ import annotations

import argparse
import importlib
import json
import os
import sys
import time

HERE = os.path.dirname(os.path.abspath(__file__))
sys.path.insert(0, os.path.dirname(HERE))

from sa import core  # noqa: E402
from sa.index import Index  # noqa: E402


def load_rules(prop: str):
    return importlib.import_module(f"sa.rules.{prop.lower()}")


def main(argv=None) -> int:
    ap = argparse.ArgumentParser()
    ap.add_argument("prop")
    ap.add_argument("--tier", default=os.environ.get("VERIF_TIER", "quick"), choices=["quick", "thorough"])
    ap.add_argument("--repo", default="/repo")
    ap.add_argument("--replay", default=None)
    ap.add_argument("--no-write", action="store_true", help="do not write evidence (used by the self-test)")
    ap.add_argument("--no-selftest", action="store_true")
    ap.add_argument("--list", action="store_true", help="print every obligation")
    a = ap.parse_args(argv)
    t0 = time.time()
    prop = a.prop.upper()
    try:
        mod = load_rules(prop)
    except ModuleNotFoundError:
        print(f"ANALYSIS-ERROR property={prop} rule=E6 reason=no rules module for this property")
        return 2
    status, ctx, errors = core.run_property(prop, mod.rules, a.repo, a.tier)
    if a.list and ctx is not None:
        for o in ctx.obs:
            print(f"  [{o.verdict:9s}] {o.rule:8s} {o.file}:{o.line}: {o.qual}: {o.construct[:90]} -- {o.reason[:140]}")
    if a.replay:
        with open(a.replay) as fh:
            want = {(v["rule"], f"{v['file']}::{v['qualname']}::{v['construct']}") for v in json.load(fh)["violations"]}
        if status == 2:
            for e in errors:
                print(f"ANALYSIS-ERROR property={prop} {e}")
            return 2
        still = [o for o in ctx.obs if o.verdict == "violation" and (o.rule, o.key) in want]
        for o in still:
            print(f"{o.file}:{o.line or 0}: {o.rule}: {o.qual}: {o.construct} -- {o.reason}")
        if still:
            print(f"VIOLATION property={prop} replay={a.replay}")
            return 1
        print(f"OK property={prop} replay: none of the {len(want)} recorded violation(s) reproduces")
        return 0
    selftest = None
    if a.tier == "thorough" and not a.no_selftest and status != 2:
        from sa import selftest as st

        selftest = st.run_catalogue(prop, a.repo)
        for line in selftest.pop("lines"):
            print(line)
        if selftest["missed"] or selftest["false_alarms"] or selftest["errors"]:
            # the self-test never produces a VIOLATION line: a checker that lost its teeth is an analysis error
            errors = errors + [f"rule=selftest reason=missed={selftest['missed']} false_alarms={selftest['false_alarms']} errors={selftest['errors']}"]
            status = 2
    return core.report(prop, status, ctx, errors, a.tier, t0, getattr(mod, "LEVEL_TEXT", ""), selftest=selftest, write=not a.no_write)


if __name__ == "__main__":
    try:
        rc = main()
    except SystemExit:
        raise
    except BaseException as e:  # last resort: a traceback must not look like a violation (exit 1)
        print(f"ANALYSIS-ERROR property=? rule=internal reason={type(e).__name__}: {e}")
        rc = 2
    sys.stdout.flush()
    sys.exit(rc)
