"""E1 - statement-level control-flow graph of one function, with dominators.

Nodes are integers; `stmt[n]` is the ast statement (None for ENTRY / EXIT /
RAISE).  Compound statements get a header node (`if`, loop, `with`, `try`)
and their bodies are expanded.  Edges out of an `if` / loop header carry a
`label` (True / False).  Exceptions: explicit `raise` goes to the handlers of
the innermost enclosing `try` (coarsely: to all of them) or to RAISE; every
statement inside a `try` body additionally has an edge to each handler
(an exception may occur anywhere).  Implicit exceptions outside a `try` are
not modelled (they abort the function: no normal exit is reached).
"""
from __future__ import annotations

import ast
from typing import Callable, Dict, Iterable, List, Optional, Set

import networkx as nx


class CFG:
    def __init__(self, fn: ast.AST):
        self.fn = fn
        self.g = nx.DiGraph()
        self.stmt: Dict[int, Optional[ast.AST]] = {}
        self.kind: Dict[int, str] = {}
        self._n = 0
        self.entry = self._new(None, "ENTRY")
        self.exit = self._new(None, "EXIT")
        self.raise_exit = self._new(None, "RAISE")
        self._loops: List[tuple] = []
        self._handlers: List[List[int]] = []  # stack of handler entry nodes
        self._finally: List[list] = []
        ends = self._block(fn.body, [self.entry])
        self._link(ends, self.exit)
        self._idom = None
        self._ipdom = None

    # -------------------------------------------------------------- building
    def _new(self, st, kind):
        i = self._n
        self._n += 1
        self.g.add_node(i)
        self.stmt[i] = st
        self.kind[i] = kind
        return i

    def _link(self, preds, n):
        for p in preds:
            if isinstance(p, tuple):
                self.g.add_edge(p[0], n, label=p[1])
            else:
                self.g.add_edge(p, n)

    def _exc_edges(self, n):
        if self._handlers:
            for h in self._handlers[-1]:
                self.g.add_edge(n, h, exc=True)

    def _block(self, stmts, preds):
        for st in stmts:
            preds = self._stmt(st, preds)
        return preds

    def _stmt(self, st, preds):
        if isinstance(st, ast.If):
            c = self._new(st, "if")
            self._link(preds, c)
            self._exc_edges(c)
            t = self._block(st.body, [(c, True)])
            f = self._block(st.orelse, [(c, False)]) if st.orelse else [(c, False)]
            return t + f
        if isinstance(st, (ast.For, ast.AsyncFor, ast.While)):
            h = self._new(st, "loop")
            self._link(preds, h)
            self._exc_edges(h)
            self._loops.append((h, []))
            body_end = self._block(st.body, [(h, True)])
            self._link(body_end, h)
            _, breaks = self._loops.pop()
            out = self._block(st.orelse, [(h, False)]) if st.orelse else [(h, False)]
            # `while True:` has no False exit
            if isinstance(st, ast.While) and isinstance(st.test, ast.Constant) and st.test.value is True:
                out = [o for o in out if o != (h, False)]
            return out + breaks
        if isinstance(st, ast.Return):
            n = self._new(st, "return")
            self._link(preds, n)
            self._exc_edges(n)
            self.g.add_edge(n, self.exit)
            return []
        if isinstance(st, ast.Raise):
            n = self._new(st, "raise")
            self._link(preds, n)
            if self._handlers:
                self._exc_edges(n)
            else:
                self.g.add_edge(n, self.raise_exit)
            return []
        if isinstance(st, ast.Break):
            n = self._new(st, "break")
            self._link(preds, n)
            self._loops[-1][1].append(n)
            return []
        if isinstance(st, ast.Continue):
            n = self._new(st, "continue")
            self._link(preds, n)
            self.g.add_edge(n, self._loops[-1][0])
            return []
        if isinstance(st, (ast.With, ast.AsyncWith)):
            n = self._new(st, "with")
            self._link(preds, n)
            self._exc_edges(n)
            return self._block(st.body, [n])
        if isinstance(st, ast.Try):
            n = self._new(st, "try")
            self._link(preds, n)
            hnodes = [self._new(h, "except") for h in st.handlers]
            self._handlers.append(hnodes)
            b = self._block(st.body, [n])
            self._handlers.pop()
            hs = []
            for hn, h in zip(hnodes, st.handlers):
                self.g.add_edge(n, hn, exc=True)
                hs += self._block(h.body, [hn])
            o = self._block(st.orelse, b) if st.orelse else b
            allp = o + hs
            if st.finalbody:
                return self._block(st.finalbody, allp)
            return allp
        if isinstance(st, ast.Match):
            n = self._new(st, "match")
            self._link(preds, n)
            outs = []
            for case in st.cases:
                outs += self._block(case.body, [n])
            return outs + [n]
        n = self._new(st, "assert" if isinstance(st, ast.Assert) else "stmt")
        self._link(preds, n)
        self._exc_edges(n)
        if isinstance(st, ast.Assert):
            if not self._handlers:
                self.g.add_edge(n, self.raise_exit)
        return [n]

    # --------------------------------------------------------------- queries
    def nodes(self, pred: Callable[[ast.AST], bool]) -> List[int]:
        return [i for i, st in self.stmt.items() if st is not None and pred(st)]

    def node_of(self, st: ast.AST) -> Optional[int]:
        for i, s in self.stmt.items():
            if s is st:
                return i
        return None

    def node_containing(self, sub: ast.AST) -> Optional[int]:
        """The CFG node whose own (header-level) syntax contains expression `sub`."""
        best = None
        for i, s in self.stmt.items():
            if s is None:
                continue
            for part in header_parts(s):
                for x in ast.walk(part):
                    if x is sub:
                        best = i
        return best

    @property
    def idom(self):
        if self._idom is None:
            self._idom = nx.immediate_dominators(self.g, self.entry)
        return self._idom

    def dominates(self, a: int, b: int) -> bool:
        idom = self.idom
        x = b
        while True:
            if x == a:
                return True
            if x not in idom or idom[x] == x:
                return False
            x = idom[x]

    def reachable(self, a: int, b: int) -> bool:
        return nx.has_path(self.g, a, b)

    def all_paths_pass(self, start: int, targets: Iterable[int], end: Optional[int] = None) -> bool:
        """Every path start -> end (default: normal EXIT) passes through a node of `targets`."""
        end = self.exit if end is None else end
        targets = set(targets)
        if start in targets:
            return True
        g = self.g.copy()
        g.remove_nodes_from([t for t in targets if t != end])
        if start not in g or end not in g:
            return True
        return not nx.has_path(g, start, end)

    def path_avoiding(self, start: int, avoid: Iterable[int], end: Optional[int] = None) -> Optional[List[int]]:
        """A witness path start -> end that avoids `avoid` (None when there is none)."""
        end = self.exit if end is None else end
        g = self.g.copy()
        g.remove_nodes_from([t for t in set(avoid) if t not in (start, end)])
        try:
            return nx.shortest_path(g, start, end)
        except (nx.NetworkXNoPath, nx.NodeNotFound):
            return None

    def guards(self, n: int) -> List[tuple]:
        """Control dependences of n as [(header node, polarity)] : headers h such that one
        branch of h always leads through n... computed conservatively: (h, label) such that every
        path from ENTRY to n passes through edge h -label-> ."""
        out = []
        for h, k in self.kind.items():
            if k not in ("if", "loop"):
                continue
            if h == n or not self.dominates(h, n):
                continue
            for lab in (True, False):
                # remove the other-labelled out-edges of h and see whether n stays reachable
                g = self.g.copy()
                for _, v, d in list(g.out_edges(h, data=True)):
                    if d.get("label") == lab:
                        g.remove_edge(h, v)
                if not nx.has_path(g, self.entry, n):
                    out.append((h, lab))
        return out

    def if_guards(self, n: int) -> List[tuple]:
        """Control dependences of n on `if` headers only: [(if node, polarity)]."""
        return [(h, lab) for h, lab in self.guards(n) if self.kind[h] == "if"]

    def describe(self, n: int) -> str:
        st = self.stmt[n]
        if st is None:
            return self.kind[n]
        from .index import norm

        return f"L{getattr(st, 'lineno', '?')}: {norm(st)[:100]}"


def header_parts(st: ast.AST) -> List[ast.AST]:
    """The sub-trees evaluated *at* the CFG node of a statement (not its nested bodies)."""
    if isinstance(st, (ast.If, ast.While)):
        return [st.test]
    if isinstance(st, (ast.For, ast.AsyncFor)):
        return [st.target, st.iter]
    if isinstance(st, (ast.With, ast.AsyncWith)):
        return [i.context_expr for i in st.items] + [i.optional_vars for i in st.items if i.optional_vars]
    if isinstance(st, ast.Try):
        return []
    if isinstance(st, ast.ExceptHandler):
        return [st.type] if st.type else []
    if isinstance(st, ast.Match):
        return [st.subject]
    if isinstance(st, (ast.FunctionDef, ast.AsyncFunctionDef, ast.ClassDef)):
        return []
    return [st]


LAZY_CONSUMERS = {"zip", "map", "filter", "enumerate", "iter", "reversed", "itertools.chain", "chain", "itertools.islice", "islice", "itertools.starmap", "starmap",
                  "itertools.zip_longest", "zip_longest", "itertools.product", "itertools.accumulate", "itertools.takewhile", "itertools.dropwhile"}


def eager_walk(node: ast.AST):
    """ast.walk restricted to what is evaluated when the statement runs: does not descend into lambdas, nested definitions, nor into a
    generator expression that is not consumed on the spot (bound to a name, returned, or handed to zip / map / filter / enumerate / iter /
    itertools: its body runs later, when - and if - it is iterated)."""
    todo = [(node, None)]
    while todo:
        n, parent = todo.pop()
        if n is not node and isinstance(n, (ast.Lambda, ast.FunctionDef, ast.AsyncFunctionDef, ast.ClassDef)):
            continue
        if isinstance(n, ast.GeneratorExp):
            consumed = isinstance(parent, ast.Call) and n in parent.args and ast.unparse(parent.func) not in LAZY_CONSUMERS
            if not consumed:
                yield n
                # the outermost iterable is evaluated eagerly, the rest lazily
                todo.append((n.generators[0].iter, n))
                continue
        yield n
        for c in ast.iter_child_nodes(n):
            todo.append((c, n))


def header_walk(st: ast.AST):
    for part in header_parts(st):
        yield from eager_walk(part)
