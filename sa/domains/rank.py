"""Rank (number of axes) abstract domain - used by C12.R5 (what a fit saves has the rank a reload restores)."""
from __future__ import annotations

from typing import Dict, Optional

from ..interp import BOTH, ExtCall, Obj, Opaque
from .base import AV, TensorDomain, domain_graph


class Rk(AV):
    __slots__ = ("r", "weighted")

    def __init__(self, r: Optional[int], weighted=False):
        self.r = r
        self.weighted = weighted

    def __repr__(self):
        return f"rank{self.r if self.r is not None else '?'}"

    def __eq__(self, o):
        return isinstance(o, Rk) and o.r == self.r

    def __hash__(self):
        return hash(self.r)


def _shape_len(s):
    if isinstance(s, (tuple, list)):
        return len(s)
    if isinstance(s, int):
        return 1
    return None


class RankDomain(TensorDomain):
    NAME = "rank"

    def const(self, v=None):
        if isinstance(v, (int, float, bool)):
            return Rk(0)
        if isinstance(v, ExtCall):
            n = v.name.split(".")[-1]
            if n in ("zeros", "ones", "empty", "full") and v.args:
                s = v.args[0] if isinstance(v.args[0], (tuple, list)) else tuple(v.args) if all(isinstance(a, int) for a in v.args) else None
                return Rk(_shape_len(s))
            if n == "tensor" and v.args:
                a = v.args[0]
                d = 0
                while isinstance(a, (list, tuple)):
                    d += 1
                    a = a[0] if a else 0
                return Rk(d if not isinstance(a, (Opaque,)) else None)
        return Rk(None)

    def top(self):
        return Rk(None)

    def t_binop(self, op, a, b, raw=(None, None)):
        if a.r is None or b.r is None:
            return Rk(None, a.weighted or b.weighted)
        return Rk(max(a.r, b.r), a.weighted or b.weighted)

    def t_unary(self, fn, x, args=(), kw=None):
        return Rk(x.r, x.weighted and fn != "filled")

    def t_reduce(self, how, x, dim, but_dim, kw):
        if how in ("item",):
            return Rk(0)
        if how == "softmax":
            return Rk(x.r)
        keep = kw.get("keepdim", False) if kw else False
        if keep:
            return Rk(x.r)
        if but_dim is not None:
            if isinstance(but_dim, int):
                return Rk(1)
            if isinstance(but_dim, (tuple, list, set)):
                return Rk(len(but_dim))
            return Rk(None)
        if dim is None or dim == () or dim == []:
            return Rk(0)
        if isinstance(dim, int):
            return Rk(None if x.r is None else max(x.r - 1, 0))
        if isinstance(dim, (tuple, list)):
            return Rk(None if x.r is None else max(x.r - len(dim), 0))
        return Rk(None)

    def t_index(self, x, idx):
        if x.r is None:
            return Rk(None)
        items = idx if isinstance(idx, tuple) else (idx,)
        r = x.r
        for it in items:
            if it is None:
                r += 1
            elif isinstance(it, int):
                r -= 1
            elif it is Ellipsis or isinstance(it, slice):
                pass
            else:
                return Rk(None)
        return Rk(max(r, 0), x.weighted)

    def t_reshape(self, how, x, args, kw):
        if how == "unsqueeze_right":
            n = kw.get("ndim")
            return Rk(None if x.r is None or not isinstance(n, int) else x.r + n, x.weighted)
        if how in ("unsqueeze",):
            return Rk(None if x.r is None else x.r + 1, x.weighted)
        if how in ("transpose", "t", "T", "to", "cpu", "expand_as", "contiguous"):
            return Rk(x.r, x.weighted)
        if how in ("expand_left", "expand_right"):
            s = kw.get("shape")
            return Rk(None if x.r is None or _shape_len(s) is None else x.r + _shape_len(s), x.weighted)
        if how in ("view", "reshape", "expand"):
            s = args[0] if len(args) == 1 and isinstance(args[0], (tuple, list)) else args
            if all(isinstance(a, int) for a in s):
                return Rk(len(s), x.weighted)
        return Rk(None, x.weighted)

    def t_where(self, c, a, b):
        rs = [self.lift(v).r for v in (c, a, b)]
        return Rk(None if any(r is None for r in rs) else max(rs))

    def t_cat(self, xs, dim):
        rs = [self.lift(v).r for v in xs]
        return Rk(None if any(r is None for r in rs) else max(rs))

    def t_matmul(self, a, b):
        if a.r is None or b.r is None:
            return Rk(None)
        if a.r == 1 and b.r == 1:
            return Rk(0)
        if a.r == 1 or b.r == 1:
            return Rk(max(a.r, b.r) - 1)
        return Rk(max(a.r, b.r))

    def t_wt(self, value, weight):
        return Rk(value.r, True)

    def t_attr(self, x, name):
        if name == "ndim":
            return x.r if x.r is not None else None
        if name in ("shape", "dtype", "device", "requires_grad"):
            return None
        if name == "weight":
            return Rk(x.r) if x.weighted else None
        return Rk(x.r)

    def t_join(self, a, b):
        return Rk(a.r if a.r == b.r else None, a.weighted or b.weighted)

    def t_is_weighted(self, x):
        return BOTH if x.weighted else False

    def t_logprob(self, family, params, x):
        rs = [self.lift(v).r for v in [x] + list(params)]
        return Rk(None if any(r is None for r in rs) else max(rs))

    def t_named(self, name, args, kw):
        if name == "compute_std_from_variance":
            return self.lift(args[0] if args else kw.get("variance"))
        if name == "compute_orthonormal_basis":
            return Rk(2)
        return NotImplemented

    def initial(self, g, node):
        v = node.var
        if node.kind in ("ModelParameter",):
            return Rk(_shape_len(v.attrs.get("shape")))
        if node.kind == "Hyperparameter":
            val = v.attrs.get("value")
            return self.const(val) if not isinstance(val, Rk) else val
        if node.kind == "DataVariable":
            return Rk({"t": 2, "y": 3, "event": 2}.get(node.name), True)
        if node.kind in ("PopulationLatentVariable", "IndividualLatentVariable"):
            # rank of a latent variable = rank of its prior's parameters (+1 individual axis)
            prior = v.attrs["prior"]
            ranks = []
            for pn in prior.attrs["parameters_names"]:
                pnode = g.nodes.get(pn)
                if pnode is None:
                    return Rk(None)
                ranks.append(self.initial(g, pnode).r)
            if any(r is None for r in ranks):
                return Rk(None)
            base = max(ranks)
            return Rk(base + (1 if node.kind == "IndividualLatentVariable" else 0))
        return Rk(None)


def rank_results(ctx, g):
    """[(parameter, which rule, declared rank, computed rank | None, error)] for every update rule of the configuration."""
    dom = RankDomain(ctx.ix)
    dg = domain_graph(dom, g.cfg)
    vals, failures = dom.eval_graph(dg)
    out = []
    for p, which, val, err in dom.eval_update_rules(dg, vals):
        declared = _shape_len(dg.nodes[p].var.attrs.get("shape"))
        out.append((p, which, declared, getattr(val, "r", None) if val is not None else None, err))
    return out
