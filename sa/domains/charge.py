"""Gauge-charge abstract domain (C10): how a value transforms under the re-centring x -> x + q*m of the shifted variables.

    Inv      unchanged
    Add(q)   shifted by q*m
    Mul(q)   multiplied by exp(q*m)        (Mul(0) = Inv)
    Unk      not of one of these forms (or: unknown)
"""
from __future__ import annotations

from fractions import Fraction
from typing import Dict

from ..interp import BOTH, ExtCall, Opaque, Unsupported
from .base import AV, TensorDomain, domain_graph


class Q(AV):
    __slots__ = ("kind", "q", "weighted")

    def __init__(self, kind="inv", q=0, weighted=False):
        if kind in ("add", "mul") and q == 0:
            kind = "inv"
        self.kind = kind
        self.q = Fraction(q) if kind in ("add", "mul") else Fraction(0)
        self.weighted = weighted

    def __repr__(self):
        return {"inv": "Inv", "unk": "Unknown", "top": "NotModelled", "split": "SplitPower"}.get(self.kind, f"{self.kind.title()}({float(self.q):+g})")

    def __eq__(self, o):
        return isinstance(o, Q) and (self.kind, self.q) == (o.kind, o.q)

    def __hash__(self):
        return hash((self.kind, self.q))


def _const(v):
    if isinstance(v, bool):
        return None
    if isinstance(v, (int, float)):
        if isinstance(v, float) and (v != v or v in (float("inf"), float("-inf"))):
            return None  # a non-finite literal is not a scaling constant
        return Fraction(v).limit_denominator(10 ** 6)
    return None


class ChargeDomain(TensorDomain):
    NAME = "gauge-charge"

    def const(self, v=None):
        return Q()

    def top(self):
        # an operation this domain has no transfer function for: "do not know" (verdict unknown), to be told apart from
        # "unk" = provably not of a covariant form (sum of differently charged terms ...), which is a definite non-invariance
        return Q("top")

    def t_binop(self, op, a, b, raw=(None, None)):
        w = a.weighted or b.weighted
        if a.kind == "unk" or b.kind == "unk":
            return Q("unk", weighted=w)
        if a.kind == "split" or b.kind == "split":
            return Q("split", weighted=w)
        ca, cb = _const(raw[0]), _const(raw[1])
        if op in ("add", "sub"):
            s = 1 if op == "add" else -1
            if a.kind == "inv" and b.kind == "inv":
                return Q(weighted=w)
            if a.kind == "add" and b.kind == "inv":
                return Q("add", a.q, w)
            if a.kind == "inv" and b.kind == "add":
                return Q("add", s * b.q, w)
            if a.kind == "add" and b.kind == "add":
                return Q("add", a.q + s * b.q, w)
            if a.kind == "mul" and b.kind == "mul" and a.q == b.q:
                return Q("mul", a.q, w)
            return Q("unk", weighted=w)
        if op == "mul":
            if a.kind == "add":
                return Q("add", a.q * cb, w) if cb is not None else Q("unk", weighted=w)
            if b.kind == "add":
                return Q("add", b.q * ca, w) if ca is not None else Q("unk", weighted=w)
            return Q("mul", a.q + b.q, w)
        if op == "div":
            if a.kind == "add":
                return Q("add", a.q / cb, w) if cb else Q("unk", weighted=w)
            if b.kind == "add":
                return Q("unk", weighted=w)
            return Q("mul", a.q - b.q, w)
        if op == "pow":
            if a.kind == "inv" and b.kind == "inv":
                return Q(weighted=w)
            if a.kind == "mul" and cb is not None:
                return Q("mul", a.q * cb, w)
            if a.kind == "mul" and b.kind == "inv":
                # x ** e with x rescaled by the gauge and e an invariant that is not a constant: rescaled by exp(q e m) - the charge is not a number.
                # Invariance of what is built from it rests on the cancellation of such powers (exact over the reals, not in floating point)
                return Q("split", weighted=w)
            return Q("unk", weighted=w)
        if op in ("cmp", "and", "or", "mod"):
            # comparisons with 0 are invariant under positive scaling; anything else must be invariant itself
            if a.kind == "inv" and b.kind == "inv":
                return Q()
            if a.kind == "mul" and cb == 0 or b.kind == "mul" and ca == 0:
                return Q()
            if a.kind == "mul" and b.kind == "mul" and a.q == b.q:
                return Q()
            return Q("unk")
        if op == "matmul":
            if a.kind in ("inv", "mul") and b.kind in ("inv", "mul"):
                return Q("mul", a.q + b.q, w)
            return Q("unk", weighted=w)
        return Q("unk", weighted=w)

    def t_unary(self, fn, x, args=(), kw=None):
        w = x.weighted and fn != "filled"
        if fn in ("ones_like", "zeros_like", "full_like", "empty_like"):
            return Q()  # whatever the values of the argument
        if x.kind == "unk":
            return Q("unk", weighted=w)
        if x.kind == "split":
            return Q("split", weighted=w)
        if fn == "exp":
            return Q("mul", x.q, w) if x.kind == "add" else (Q(weighted=w) if x.kind == "inv" else Q("unk", weighted=w))
        if fn == "log":
            return Q("add", x.q, w) if x.kind == "mul" else (Q(weighted=w) if x.kind == "inv" else Q("unk", weighted=w))
        if fn == "neg":
            return Q("add", -x.q, w) if x.kind == "add" else Q(x.kind, x.q, w)
        if fn == "square":
            return Q("mul", 2 * x.q, w) if x.kind == "mul" else (Q(weighted=w) if x.kind == "inv" else Q("unk", weighted=w))
        if fn == "sqrt":
            return Q("mul", x.q / 2, w) if x.kind == "mul" else (Q(weighted=w) if x.kind == "inv" else Q("unk", weighted=w))
        if fn in ("abs", "float", "double", "clone", "detach", "to", "cpu", "contiguous", "as_tensor", "filled", "type", "relu", "masked_fill", "nan_to_num"):
            if fn in ("filled", "masked_fill") and x.kind == "add":
                return Q("unk", weighted=w)  # a constant fill value is not shifted
            return Q(x.kind, x.q, w)
        if fn == "clamp":
            bounds = [a for a in args if a is not None] + [v for k, v in (kw or {}).items() if k in ("min", "max") and v is not None]
            if x.kind == "inv":
                return Q(weighted=w)
            if x.kind == "mul" and all(_const(b) == 0 for b in bounds):
                return Q("mul", x.q, w)
            return Q("unk", weighted=w)
        if fn == "sign":
            return Q(weighted=w) if x.kind in ("inv", "mul") else Q("unk", weighted=w)
        if fn in ("ones_like", "zeros_like", "full_like", "empty_like", "isnan", "isinf", "isfinite", "logical_not", "bool"):
            return Q()
        if x.kind == "inv":
            return Q(weighted=w)  # any function of an invariant value is invariant
        return Q("unk", weighted=w)

    def t_reduce(self, how, x, dim, but_dim, kw):
        if x.kind in ("inv", "unk"):
            return Q(x.kind)
        if x.kind == "mul":
            if how in ("sum_dim", "sum", "mean", "wsum_value", "norm", "max", "min", "amax", "amin", "item", "nansum", "nanmean", "std", "tolist", "prod") and how != "prod":
                return Q("mul", x.q)
            if how in ("wsum_weight", "any", "all", "argmax", "argmin", "count_nonzero", "softmax"):
                return Q() if how != "softmax" else Q("unk")
            return Q("unk")
        # additive
        if how in ("mean", "item", "max", "min", "amax", "amin", "tolist", "nanmean", "median"):
            return Q("add", x.q)
        if how in ("std", "var", "argmax", "argmin", "wsum_weight"):
            return Q()
        return Q("unk")

    def t_where(self, c, a, b):
        c, a, b = self.lift(c), self.lift(a), self.lift(b)
        if c.kind != "inv":
            return Q("unk")
        if a == b:
            return a
        # a literal 0 branch is compatible with any multiplicative charge
        return Q("unk")

    def ext_call(self, name, args, kw):
        if name == "torch.where" and len(args) == 3:
            c, a, b = args
            ca, cb = _const(a), _const(b)
            cq = self.lift(c)
            if cq.kind == "inv":
                qa, qb = self.lift(a), self.lift(b)
                if ca == 0 and qb.kind in ("mul", "inv"):
                    return qb
                if cb == 0 and qa.kind in ("mul", "inv"):
                    return qa
        if name == "torch.outer" and len(args) == 2:  # bilinear, like a product
            return self.t_binop("matmul", self.lift(args[0]), self.lift(args[1]))
        if name in ("torch.trapezoid",):
            return Q("unk")
        return super().ext_call(name, args, kw)

    def t_cat(self, xs, dim):
        qs = [self.lift(x) for x in xs]
        if all(q == qs[0] for q in qs):
            return qs[0]
        # zero-padding is compatible with an additive charge only if the padded entries are not shifted: not of the form
        return Q("unk")

    def t_matmul(self, a, b):
        return self.t_binop("matmul", a, b)

    def t_wt(self, value, weight):
        return Q(value.kind, value.q, True)

    def t_attr(self, x, name):
        if name in ("shape", "ndim", "dtype", "device", "requires_grad"):
            return None
        if x.kind == "top":
            return Q("top")
        if name == "weight":
            return Q() if x.weighted else None
        return Q(x.kind, x.q)

    def t_join(self, a, b):
        if a == b:
            return Q(a.kind, a.q, a.weighted or b.weighted)
        return Q("unk", weighted=a.weighted or b.weighted)

    def t_is_weighted(self, x):
        return BOTH if x.weighted else False

    def t_logprob(self, family, params, x):
        qs = [self.lift(v) for v in [x] + list(params)]
        return Q() if all(q.kind == "inv" for q in qs) else Q("unk")

    def t_named(self, name, args, kw):
        if name == "compute_std_from_variance":
            return self.t_unary("sqrt", self.lift(args[0] if args else kw.get("variance")))
        return NotImplemented  # compute_orthonormal_basis is *interpreted* in this domain

    def abs_setitem(self, o, k, v):
        # in-place write of a constant into a fresh (invariant) tensor: stays invariant
        if isinstance(o, Q) and o.kind == "inv" and self.lift(v).kind == "inv":
            return
        raise Unsupported("in-place item assignment changing the gauge charge")

    def initial(self, g, node):
        q = getattr(self, "shifts", {}).get(node.name)
        if q is not None:
            return Q("add", q, node.kind == "DataVariable")
        return Q(weighted=node.kind == "DataVariable")


def _has_top(v, depth=0, kind="top"):
    if isinstance(v, Q):
        return v.kind == kind
    if isinstance(v, (list, tuple)) and depth < 3:
        return any(_has_top(x, depth + 1, kind) for x in v)
    return False  # (mappings are not searched: the state mapping handed to update rules holds every node, evaluated or not)


def _top_strict(fn):
    def wrapped(self, *a, **k):
        if _has_top(a) or _has_top(list(k.values())):
            return Q("top")
        r = fn(self, *a, **k)
        # a value built from a split power stays one (unless the operation discards its argument, or something is definitely non-covariant)
        if isinstance(r, Q) and r.kind == "unk" and (_has_top(a, kind="split") or _has_top(list(k.values()), kind="split")) \
                and not (_has_top(a, kind="unk") or _has_top(list(k.values()), kind="unk")):
            return Q("split", weighted=r.weighted)
        return r
    wrapped.__name__ = fn.__name__
    return wrapped


for _m in ("t_binop", "t_unary", "t_reduce", "t_where", "ext_call", "t_cat", "t_matmul", "t_wt", "t_join", "t_logprob", "t_named"):
    setattr(ChargeDomain, _m, _top_strict(getattr(ChargeDomain, _m)))


def charges_of_graph(ctx, g, shifts: Dict[str, int]):
    dom = ChargeDomain(ctx.ix)
    dom.shifts = dict(shifts)
    dg = domain_graph(dom, g.cfg)
    vals, failures = dom.eval_graph(dg)
    return vals, failures
