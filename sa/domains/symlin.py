"""Symbolic small-dimension linear algebra (sympy) for C10.R3: evaluates the body of `compute_orthonormal_basis` on a symbolic
velocity vector and a symbolic metric (0-D, 1-D or 2-D) and decides, as a polynomial identity, whether every returned column is
orthogonal to `G @ v` - whatever the way the reflection is written.

Nothing of leaspy or torch is executed: the function's syntax tree is interpreted over tensors of sympy expressions.

    sign(x)  ->  a symbol s with the relation  s**2 = 1
    norm(x)  ->  a positive symbol N with the relation  N**2 = sum(x_i**2)

An identity is decided by reducing the numerator of the expression modulo these relations (they form a Groebner basis: leading
terms s**2, N**2 of distinct variables), i.e. by lowering even powers until every relation symbol has degree <= 1.

Unsupported syntax raises `SymUnsupported` (the caller then falls back to its confirmed-shape anchor: verdict unknown).
"""
from __future__ import annotations

import ast
import itertools
from typing import Dict, List, Tuple

import sympy as sp

from ..astq import U


class SymUnsupported(Exception):
    pass


class Refused(Exception):
    """the interpreted function raised (configuration refused)"""


class T:
    """dense tensor of sympy expressions (row-major), shapes () / (n,) / (n, m)"""
    __slots__ = ("shape", "data")

    def __init__(self, shape, data):
        self.shape = tuple(shape)
        self.data = list(data)
        n = 1
        for s in self.shape:
            n *= s
        if n != len(self.data):
            raise SymUnsupported(f"shape {shape} with {len(self.data)} entries")

    @property
    def ndim(self):
        return len(self.shape)

    def at(self, idx):
        k = 0
        for i, s in zip(idx, self.shape):
            k = k * s + i
        return self.data[k]

    def copy(self):
        return T(self.shape, list(self.data))


def scalar(x):
    return T((), [sp.sympify(x)])


def as_t(x):
    if isinstance(x, T):
        return x
    if isinstance(x, (int, float)) and not isinstance(x, bool):
        return scalar(sp.nsimplify(x))
    if isinstance(x, sp.Basic):
        return scalar(x)
    raise SymUnsupported(f"operand {x!r}")


def broadcast(a: T, b: T):
    nd = max(a.ndim, b.ndim)
    sa = (1,) * (nd - a.ndim) + a.shape
    sb = (1,) * (nd - b.ndim) + b.shape
    out = []
    for x, y in zip(sa, sb):
        if x != y and 1 not in (x, y):
            raise SymUnsupported(f"shapes {a.shape} and {b.shape} do not broadcast")
        out.append(max(x, y))
    return tuple(out), sa, sb


def elementwise(op, a, b):
    a, b = as_t(a), as_t(b)
    shape, sa, sb = broadcast(a, b)
    data = []
    for idx in itertools.product(*[range(s) for s in shape]):
        ia = tuple(0 if s == 1 else i for i, s in zip(idx, sa))
        ib = tuple(0 if s == 1 else i for i, s in zip(idx, sb))
        x = T(sa, a.data).at(ia)
        y = T(sb, b.data).at(ib)
        data.append(op(x, y))
    return T(shape, data)


def matmul(a: T, b: T):
    a, b = as_t(a), as_t(b)
    if a.ndim == 2 and b.ndim == 1 and a.shape[1] == b.shape[0]:
        return T((a.shape[0],), [sum(a.at((i, k)) * b.data[k] for k in range(b.shape[0])) for i in range(a.shape[0])])
    if a.ndim == 1 and b.ndim == 2 and a.shape[0] == b.shape[0]:
        return T((b.shape[1],), [sum(a.data[k] * b.at((k, j)) for k in range(a.shape[0])) for j in range(b.shape[1])])
    if a.ndim == 2 and b.ndim == 2 and a.shape[1] == b.shape[0]:
        return T((a.shape[0], b.shape[1]), [sum(a.at((i, k)) * b.at((k, j)) for k in range(a.shape[1])) for i in range(a.shape[0]) for j in range(b.shape[1])])
    if a.ndim == 1 and b.ndim == 1 and a.shape == b.shape:
        return scalar(sum(x * y for x, y in zip(a.data, b.data)))
    raise SymUnsupported(f"matmul of shapes {a.shape} @ {b.shape}")


class Relations:
    def __init__(self):
        self.rel: List[Tuple[sp.Symbol, sp.Expr]] = []  # (symbol, value of symbol**2), in creation order
        self._sign: Dict[str, sp.Symbol] = {}
        self._norm: Dict[str, sp.Symbol] = {}

    def sign(self, x):
        x = sp.expand(x)
        if x.is_positive:
            return sp.Integer(1)
        if x.is_negative:
            return sp.Integer(-1)
        k = sp.srepr(x)
        if k not in self._sign:
            s = sp.Symbol(f"sgn{len(self._sign)}", real=True)
            self._sign[k] = s
            self.rel.append((s, sp.Integer(1)))
        return self._sign[k]

    def norm(self, xs):
        sq = sp.expand(sum(x ** 2 for x in xs))
        k = sp.srepr(sq)
        if k not in self._norm:
            n = sp.Symbol(f"nrm{len(self._norm)}", positive=True)
            self._norm[k] = n
            self.rel.append((n, sq))
        return self._norm[k]

    def is_zero(self, e) -> bool:
        if sp.count_ops(e) > 20000:
            raise SymUnsupported("expression too large for the algebraic decision")
        num = sp.numer(sp.together(sp.expand(e)))
        num = sp.expand(num)
        for _ in range(12):
            changed = False
            for sym, sq in reversed(self.rel):
                if not num.has(sym):
                    continue
                p = sp.Poly(num, sym)
                if p.degree() < 2:
                    continue
                changed = True
                num = sp.expand(sum(c * sym ** (k % 2) * sq ** (k // 2) for (k,), c in p.terms()))
                num = sp.expand(sp.numer(sp.together(num)))
            if not changed:
                break
        return sp.expand(num) == 0


class Eval:
    def __init__(self, fn: ast.FunctionDef, args: Dict[str, object], rel: Relations, repo_funcs=None):
        self.fn = fn
        self.env = dict(args)
        self.rel = rel

    # ------------------------------------------------------------------ expressions
    def ev(self, e):
        if isinstance(e, ast.Constant):
            if isinstance(e.value, (int, float, bool, str)) or e.value is None:
                return e.value
            raise SymUnsupported(U(e))
        if isinstance(e, ast.Name):
            if e.id in self.env:
                return self.env[e.id]
            if e.id in ("int", "float", "tuple", "len", "isinstance", "torch"):
                return e.id
            raise SymUnsupported(f"name {e.id}")
        if isinstance(e, ast.Tuple):
            return tuple(self.ev(x) for x in e.elts)
        if isinstance(e, ast.UnaryOp):
            v = self.ev(e.operand)
            if isinstance(e.op, ast.USub):
                return elementwise(lambda x, y: -x, v, 0) if isinstance(v, T) else -v
            if isinstance(e.op, ast.Not):
                return not self.truth(v)
            if isinstance(e.op, ast.UAdd):
                return v
            raise SymUnsupported(U(e))
        if isinstance(e, ast.BoolOp):
            vals = [self.truth(self.ev(v)) for v in e.values]
            return all(vals) if isinstance(e.op, ast.And) else any(vals)
        if isinstance(e, ast.BinOp):
            a, b = self.ev(e.left), self.ev(e.right)
            return self.binop(e.op, a, b, e)
        if isinstance(e, ast.Compare):
            left = self.ev(e.left)
            if len(e.ops) == 1:
                r = self.compare(e.ops[0], left, self.ev(e.comparators[0]), e)
                return r if isinstance(r, T) and r.shape != () else self.truth(r)
            for op, c in zip(e.ops, e.comparators):
                right = self.ev(c)
                if not self.truth(self.compare(op, left, right, e)):
                    return False
                left = right
            return True
        if isinstance(e, ast.Attribute):
            v = self.ev(e.value) if not (isinstance(e.value, ast.Name) and e.value.id == "torch") else "torch"
            if isinstance(v, T):
                if e.attr == "shape":
                    return v.shape
                if e.attr == "ndim":
                    return v.ndim
                if e.attr == "T" and v.ndim == 2:
                    return T((v.shape[1], v.shape[0]), [v.at((i, j)) for j in range(v.shape[1]) for i in range(v.shape[0])])
            raise SymUnsupported(U(e))
        if isinstance(e, ast.Subscript):
            return self.subscript(self.ev(e.value), e.slice)
        if isinstance(e, ast.Call):
            return self.call(e)
        if isinstance(e, ast.JoinedStr):
            return "<text>"
        raise SymUnsupported(type(e).__name__ + ": " + U(e)[:60])

    def truth(self, v):
        if isinstance(v, (bool, int)):
            return bool(v)
        if isinstance(v, T) and v.shape == ():
            v = v.data[0]
        if isinstance(v, sp.Basic):
            if v is sp.true:
                return True
            if v is sp.false:
                return False
            raise SymUnsupported(f"undetermined condition {v}")
        if v is None or isinstance(v, (tuple, str)):
            return bool(v)
        raise SymUnsupported(f"truth of {v!r}")

    def compare(self, op, a, b, node):
        ops = {ast.Eq: lambda x, y: x == y, ast.NotEq: lambda x, y: x != y}
        if not isinstance(a, (T, sp.Basic)) and not isinstance(b, (T, sp.Basic)):
            import operator as o
            table = {ast.Eq: o.eq, ast.NotEq: o.ne, ast.Lt: o.lt, ast.LtE: o.le, ast.Gt: o.gt, ast.GtE: o.ge, ast.Is: lambda x, y: x is y, ast.IsNot: lambda x, y: x is not y}
            if type(op) not in table:
                raise SymUnsupported(U(node))
            return table[type(op)](a, b)
        sym = {ast.Lt: sp.Lt, ast.LtE: sp.Le, ast.Gt: sp.Gt, ast.GtE: sp.Ge}
        if type(op) in sym:
            return elementwise(lambda x, y: sym[type(op)](x, y), a, b)
        raise SymUnsupported(U(node))

    def binop(self, op, a, b, node):
        if isinstance(op, ast.MatMult):
            return matmul(a, b)
        if isinstance(a, tuple) and isinstance(b, tuple) and isinstance(op, ast.Add):
            return a + b
        if isinstance(a, tuple) and isinstance(b, int) and isinstance(op, ast.Mult):
            return a * b
        if not isinstance(a, (T, sp.Basic)) and not isinstance(b, (T, sp.Basic)):
            import operator as o
            table = {ast.Add: o.add, ast.Sub: o.sub, ast.Mult: o.mul, ast.Div: o.truediv, ast.FloorDiv: o.floordiv, ast.Mod: o.mod, ast.Pow: o.pow}
            if type(op) in table and isinstance(a, (int, float)) and isinstance(b, (int, float)):
                return table[type(op)](a, b)
            raise SymUnsupported(U(node))
        table = {ast.Add: lambda x, y: x + y, ast.Sub: lambda x, y: x - y, ast.Mult: lambda x, y: x * y, ast.Div: lambda x, y: x / y, ast.Pow: lambda x, y: x ** y}
        if type(op) not in table:
            raise SymUnsupported(U(node))
        return elementwise(table[type(op)], a, b)

    def index_of(self, s, size):
        if isinstance(s, ast.Slice):
            if s.step is not None:
                raise SymUnsupported("slice step")
            lo = self.ev(s.lower) if s.lower is not None else 0
            hi = self.ev(s.upper) if s.upper is not None else size
            if not isinstance(lo, int) or not isinstance(hi, int):
                raise SymUnsupported("symbolic slice bound")
            lo = lo + size if lo < 0 else lo
            hi = hi + size if hi < 0 else hi
            return list(range(max(lo, 0), min(hi, size)))
        v = self.ev(s)
        if isinstance(v, int) and not isinstance(v, bool):
            if not -size <= v < size:
                raise SymUnsupported(f"index {v} out of range {size}")
            return v % size
        raise SymUnsupported(f"index {U(s)}")

    def subscript(self, v, sl):
        if isinstance(v, tuple):
            i = self.ev(sl)
            if isinstance(i, int):
                return v[i]
            raise SymUnsupported("tuple index")
        if not isinstance(v, T):
            raise SymUnsupported("subscript of a non-tensor")
        parts = list(sl.elts) if isinstance(sl, ast.Tuple) else [sl]
        if len(parts) > v.ndim:
            raise SymUnsupported("too many indices")
        sel = [self.index_of(p, v.shape[k]) for k, p in enumerate(parts)] + [list(range(s)) for s in v.shape[len(parts):]]
        shape = tuple(len(s) for s in sel if isinstance(s, list))
        data = [v.at(idx) for idx in itertools.product(*[s if isinstance(s, list) else [s] for s in sel])]
        return T(shape, data)

    def call(self, e):
        fn = U(e.func)
        args = [self.ev(a) for a in e.args]
        kw = {k.arg: self.ev(k.value) for k in e.keywords if k.arg}
        if fn == "len" and len(args) == 1 and isinstance(args[0], tuple):
            return len(args[0])
        if fn == "isinstance" and len(e.args) == 2:
            v = args[0]
            names = {U(x) for x in (e.args[1].elts if isinstance(e.args[1], ast.Tuple) else [e.args[1]])}
            if isinstance(v, bool):
                return "bool" in names
            if isinstance(v, int):
                return "int" in names
            if isinstance(v, T):
                return "torch.Tensor" in names
            raise SymUnsupported(U(e))
        if fn in ("torch.zeros_like", "torch.ones_like") and args and isinstance(args[0], T):
            return T(args[0].shape, [sp.Integer(0 if fn.endswith("zeros_like") else 1)] * len(args[0].data))
        if fn in ("torch.zeros", "torch.ones") and args:
            shape = args[0] if isinstance(args[0], tuple) else tuple(args)
            n = 1
            for s in shape:
                n *= s
            return T(shape, [sp.Integer(0 if fn == "torch.zeros" else 1)] * n)
        if fn == "torch.eye" and args and isinstance(args[0], int):
            n = args[0]
            return T((n, n), [sp.Integer(1 if i == j else 0) for i in range(n) for j in range(n)])
        if fn == "torch.sign" and args:
            a = as_t(args[0])
            return T(a.shape, [self.rel.sign(x) for x in a.data])
        if fn in ("torch.norm", "torch.linalg.norm", "torch.linalg.vector_norm") and len(args) == 1 and not kw:
            return scalar(self.rel.norm(as_t(args[0]).data))
        if fn == "torch.sqrt" and args:
            a = as_t(args[0])
            return T(a.shape, [self.rel.norm([sp.sqrt(x)]) if False else sp.sqrt(x) for x in a.data])
        if fn in ("torch.dot", "torch.matmul", "torch.mv", "torch.mm") and len(args) == 2:
            return matmul(args[0], args[1])
        if fn == "torch.outer" and len(args) == 2:
            a, b = as_t(args[0]), as_t(args[1])
            return T((a.shape[0], b.shape[0]), [x * y for x in a.data for y in b.data])
        if fn in ("torch.stack", "torch.tensor", "torch.as_tensor", "torch.hstack") and args and isinstance(args[0], (list, tuple)):
            seq = [as_t(x) for x in args[0]]
            dim = kw.get("dim", args[1] if len(args) > 1 and fn == "torch.stack" else 0)
            if seq and all(x.shape in ((), (1,)) for x in seq) and (dim in (0, -1) or fn != "torch.stack"):
                if fn == "torch.stack" and any(x.shape == (1,) for x in seq):
                    return T((len(seq), 1), [x.data[0] for x in seq])
                return T((len(seq),), [x.data[0] for x in seq])
            if fn == "torch.stack" and seq and all(x.ndim == 1 and x.shape == seq[0].shape for x in seq):
                n_ = seq[0].shape[0]
                if dim == 0:
                    return T((len(seq), n_), [v for x in seq for v in x.data])
                if dim in (1, -1):
                    return T((n_, len(seq)), [x.data[i] for i in range(n_) for x in seq])
            raise SymUnsupported(U(e))
        if fn == "torch.cat" and args:
            seq = list(args[0])
            dim = kw.get("dim", args[1] if len(args) > 1 else 0)
            if all(isinstance(x, T) and x.ndim == 1 for x in seq) and dim in (0, -1):
                return T((sum(x.shape[0] for x in seq),), [v for x in seq for v in x.data])
            if all(isinstance(x, T) and x.ndim == 2 for x in seq) and dim in (1, -1):
                rows = seq[0].shape[0]
                if any(x.shape[0] != rows for x in seq):
                    raise SymUnsupported("cat of different heights")
                cols = sum(x.shape[1] for x in seq)
                return T((rows, cols), [x.at((i, j)) for i in range(rows) for x in seq for j in range(x.shape[1])])
            if all(isinstance(x, T) and x.ndim == 2 for x in seq) and dim == 0:
                cols = seq[0].shape[1]
                return T((sum(x.shape[0] for x in seq), cols), [v for x in seq for v in x.data])
            raise SymUnsupported(U(e))
        if fn in ("torch.sum",) and len(args) == 1:
            return scalar(sum(as_t(args[0]).data))
        if isinstance(e.func, ast.Attribute):
            recv = self.ev(e.func.value)
            m = e.func.attr
            if isinstance(recv, T):
                if m == "item" and recv.shape in ((), (1,)):
                    return recv.data[0]
                if m in ("all", "any") and not args:
                    vals = [self.truth(x) for x in recv.data]
                    return all(vals) if m == "all" else any(vals)
                if m in ("view", "reshape"):
                    shape = args[0] if len(args) == 1 and isinstance(args[0], tuple) else tuple(args)
                    n = len(recv.data)
                    if shape.count(-1) == 1:
                        known = 1
                        for s in shape:
                            if s != -1:
                                known *= s
                        shape = tuple(n // known if s == -1 else s for s in shape)
                    return T(shape, recv.data)
                if m == "unsqueeze" and len(args) == 1 and isinstance(args[0], int):
                    k = args[0] % (recv.ndim + 1)
                    return T(recv.shape[:k] + (1,) + recv.shape[k:], recv.data)
                if m in ("clone", "detach", "float", "double", "contiguous"):
                    return recv.copy()
                if m in ("t",) and recv.ndim == 2:
                    return T((recv.shape[1], recv.shape[0]), [recv.at((i, j)) for j in range(recv.shape[1]) for i in range(recv.shape[0])])
                if m == "norm" and not args and not kw:
                    return scalar(self.rel.norm(recv.data))
                if m == "sum" and not args and not kw:
                    return scalar(sum(recv.data))
                if m in ("dot", "matmul", "mv") and len(args) == 1:
                    return matmul(recv, args[0])
                if m == "abs" and not args:
                    return T(recv.shape, [self.rel.sign(x) * x for x in recv.data])
        raise SymUnsupported("call " + U(e)[:70])

    # ------------------------------------------------------------------ statements
    def run(self):
        try:
            self.block(self.fn.body)
        except _Return as r:
            return r.value
        raise SymUnsupported("function ends without a return")

    def block(self, body):
        for st in body:
            self.stmt(st)

    def stmt(self, st):
        if isinstance(st, ast.Expr):
            if isinstance(st.value, ast.Constant):
                return
            self.ev(st.value)
            return
        if isinstance(st, ast.Assert):
            if not self.truth(self.ev(st.test)):
                raise Refused("assert " + U(st.test)[:60])
            return
        if isinstance(st, ast.Return):
            raise _Return(self.ev(st.value) if st.value is not None else None)
        if isinstance(st, ast.Raise):
            raise Refused(U(st)[:80])
        if isinstance(st, ast.If):
            self.block(st.body if self.truth(self.ev(st.test)) else st.orelse)
            return
        if isinstance(st, (ast.Assign, ast.AnnAssign, ast.AugAssign)):
            if isinstance(st, ast.AugAssign):
                v = self.binop(st.op, self.ev(st.target), self.ev(st.value), st)
                targets = [st.target]
            else:
                if st.value is None:
                    return
                v = self.ev(st.value)
                targets = st.targets if isinstance(st, ast.Assign) else [st.target]
            for t in targets:
                self.assign(t, v)
            return
        if isinstance(st, ast.Pass):
            return
        raise SymUnsupported("statement " + type(st).__name__)

    def assign(self, t, v):
        if isinstance(t, ast.Name):
            self.env[t.id] = v.copy() if isinstance(v, T) else v
            return
        if isinstance(t, (ast.Tuple, ast.List)):
            vs = list(v)
            if len(vs) != len(t.elts):
                raise SymUnsupported("unpacking arity")
            for x, y in zip(t.elts, vs):
                self.assign(x, y)
            return
        if isinstance(t, ast.Subscript) and isinstance(t.value, ast.Name) and isinstance(self.env.get(t.value.id), T):
            tgt = self.env[t.value.id]
            parts = list(t.slice.elts) if isinstance(t.slice, ast.Tuple) else [t.slice]
            sel = [self.index_of(p, tgt.shape[k]) for k, p in enumerate(parts)] + [list(range(s)) for s in tgt.shape[len(parts):]]
            cells = list(itertools.product(*[s if isinstance(s, list) else [s] for s in sel]))
            val = as_t(v)
            if len(val.data) not in (1, len(cells)):
                raise SymUnsupported("assignment of a tensor of another size")
            for n, idx in enumerate(cells):
                k = 0
                for i, s in zip(idx, tgt.shape):
                    k = k * s + i
                tgt.data[k] = val.data[0] if len(val.data) == 1 else val.data[n]
            return
        raise SymUnsupported("assignment target " + U(t)[:40])


class _Return(Exception):
    def __init__(self, value):
        self.value = value


class _Budget:
    """wall-clock budget for one symbolic evaluation (sympy can blow up on unusual algebra): SymUnsupported when exceeded"""

    def __init__(self, seconds):
        self.seconds = seconds

    def __enter__(self):
        import signal
        import threading
        self.armed = threading.current_thread() is threading.main_thread() and hasattr(signal, "setitimer")
        if self.armed:
            def _raise(signum, frame):
                raise SymUnsupported(f"symbolic evaluation exceeded its budget of {self.seconds}s")
            self.old = signal.signal(signal.SIGALRM, _raise)
            signal.setitimer(signal.ITIMER_REAL, self.seconds)
        return self

    def __exit__(self, *exc):
        if self.armed:
            import signal
            signal.setitimer(signal.ITIMER_REAL, 0)
            signal.signal(signal.SIGALRM, self.old)
        return False


def householder_obligations(fn: ast.FunctionDef, n: int, strip_col: int, metric: str, budget: float = 10.0):
    with _Budget(budget):
        return _householder_obligations(fn, n, strip_col, metric)


def _householder_obligations(fn: ast.FunctionDef, n: int, strip_col: int, metric: str):
    """Evaluate `compute_orthonormal_basis(dgamma_t0, G_metric, strip_col)` symbolically.
    Returns dict(orthogonal=[bool per column], orthonormal=bool, shape=...)."""
    names = [a.arg for a in fn.args.args + fn.args.kwonlyargs]
    if len(names) < 3:
        raise SymUnsupported("signature of compute_orthonormal_basis")
    d = [sp.Symbol(f"d{i}", real=True) for i in range(n)]
    rel = Relations()
    if metric == "scalar":
        g = sp.Symbol("g", positive=True)
        G = T((), [g])
        target = [g * x for x in d]
    elif metric == "diagonal":
        gs = [sp.Symbol(f"g{i}", positive=True) for i in range(n)]
        G = T((n,), gs)
        target = [a * b for a, b in zip(gs, d)]
    else:
        # a metric is symmetric: g_ij and g_ji are one symbol (so `G @ v` and `v @ G` are the same vector, as they are at run time)
        gm = [[sp.Symbol(f"g{min(i, j)}{max(i, j)}", real=True) for j in range(n)] for i in range(n)]
        G = T((n, n), [gm[i][j] for i in range(n) for j in range(n)])
        target = [sum(gm[i][k] * d[k] for k in range(n)) for i in range(n)]
    ev = Eval(fn, {names[0]: T((n,), d), names[1]: G, names[2]: strip_col}, rel)
    B = ev.run()
    if not isinstance(B, T) or B.ndim != 2:
        raise SymUnsupported("the function does not return a matrix")
    rows, cols = B.shape
    out = {"shape": B.shape, "orthogonal": [], "orthonormal": None}
    if rows != n:
        out["orthogonal"] = [False] * max(cols, 1)
        return out
    for j in range(cols):
        out["orthogonal"].append(rel.is_zero(sum(target[i] * B.at((i, j)) for i in range(n))))
    gram_ok = True
    for a in range(cols):
        for b in range(a, cols):
            e = sum(B.at((i, a)) * B.at((i, b)) for i in range(n)) - (1 if a == b else 0)
            if not rel.is_zero(e):
                gram_ok = False
    out["orthonormal"] = gram_ok
    return out
