"""Axis-0 (individual axis) abstract domain (C02.R5, C03.R5, C07.R1).

POP    does not depend on individual-level data or latent values
IND    leading axis indexes individuals and row i depends on individual i only
AGG    depends on all individuals, the individual axis has been reduced away
MIXED  still has a leading axis but rows mix individuals (or: unknown)
"""
from __future__ import annotations

from typing import Dict

from ..interp import BOTH, ExtCall, Opaque, Unsupported
from .base import AV, TensorDomain, domain_graph

_ORDER = {"POP": 0, "IND": 1, "AGG": 2, "MIXED": 3}


class Ax(AV):
    __slots__ = ("k", "weighted")

    def __init__(self, k, weighted=False):
        self.k = k
        self.weighted = weighted

    def __repr__(self):
        return self.k + ("w" if self.weighted else "")

    def __eq__(self, o):
        return isinstance(o, Ax) and o.k == self.k and o.weighted == self.weighted

    def __hash__(self):
        return hash((self.k, self.weighted))


def _combine(a: str, b: str) -> str:
    """element-wise combination (broadcast on trailing axes)"""
    s = {a, b}
    if "MIXED" in s:
        return "MIXED"
    if s == {"IND", "AGG"}:
        return "MIXED"  # row i now depends on every individual
    if "IND" in s:
        return "IND"
    if "AGG" in s:
        return "AGG"
    return "POP"


class AxisDomain(TensorDomain):
    NAME = "axis0"

    def const(self, v=None):
        return Ax("POP")

    def top(self):
        return Ax("MIXED")

    def t_binop(self, op, a, b, raw=(None, None)):
        return Ax(_combine(a.k, b.k), a.weighted or b.weighted)

    def t_unary(self, fn, x, args=(), kw=None):
        k = x.k
        for a in args:
            if isinstance(a, Ax):
                k = _combine(k, a.k)
        weighted = x.weighted and fn not in ("filled",)
        return Ax(k, weighted)

    def _axis0_reduced(self, dim, but_dim):
        """True / False / None(unknown): does the reduction remove the leading axis ?"""
        def ints(d):
            if isinstance(d, int):
                return [d]
            if isinstance(d, (tuple, list)) and all(isinstance(i, int) for i in d):
                return list(d)
            return None
        if but_dim is not None:
            b = ints(but_dim)
            if b is None:
                return None
            return 0 not in b  # negative indices: assumption ndim > |index| (documented in the evidence)
        if dim is None:
            return True
        d = ints(dim)
        if d is None:
            return None
        if d == []:
            return True  # torch: sum over () = all axes
        return 0 in d

    def t_reduce(self, how, x, dim, but_dim, kw):
        if how in ("item", "tolist"):
            return Ax(x.k)
        if how == "softmax":
            r = self._axis0_reduced(dim, None)
            if x.k == "IND" and r is not False:
                return Ax("MIXED")
            return Ax(x.k)
        if x.k in ("POP", "AGG"):
            return Ax(x.k)
        r = self._axis0_reduced(dim, but_dim)
        if x.k == "IND":
            if r is False:
                return Ax("IND")
            if r is True:
                return Ax("AGG")
            return Ax("MIXED")
        return Ax("AGG") if r is True else Ax("MIXED")

    def t_index(self, x, idx):
        if x.k != "IND":
            if isinstance(idx, Ax):
                return Ax(_combine(x.k, idx.k))
            return Ax(x.k, x.weighted)
        first = idx[0] if isinstance(idx, tuple) and idx else idx
        if isinstance(first, slice) and first == slice(None, None, None):
            return Ax("IND", x.weighted)
        if first is Ellipsis:
            return Ax("IND", x.weighted)
        if isinstance(first, Ax):
            return Ax("MIXED")
        return Ax("MIXED")  # None (new leading axis) or an integer (one individual picked)

    def t_reshape(self, how, x, args, kw):
        if how in ("transpose", "t", "permute", "T"):
            return Ax("MIXED" if x.k == "IND" else x.k, x.weighted)
        if how == "expand_left":
            return Ax("MIXED" if x.k == "IND" else x.k, x.weighted)
        if how in ("view", "reshape", "flatten", "repeat") and x.k == "IND":
            # unsqueeze_right uses view(shape + (1,)*n): handled by its own primitive name; other views may move axis 0
            return Ax("MIXED")
        return Ax(x.k, x.weighted)

    def t_where(self, c, a, b):
        k = "POP"
        for v in (c, a, b):
            k = _combine(k, self.lift(v).k)
        return Ax(k)

    def t_cat(self, xs, dim):
        k = "POP"
        for v in xs:
            k = _combine(k, self.lift(v).k)
        if k == "IND" and dim == 0:
            return Ax("MIXED")
        return Ax(k)

    def t_matmul(self, a, b):
        if a.k == "POP" and b.k == "POP":
            return Ax("POP")
        if a.k == "IND" and b.k == "POP":
            return Ax("IND")
        if a.k in ("POP", "AGG") and b.k in ("POP", "AGG"):
            return Ax("AGG")
        return Ax("MIXED")

    def t_wt(self, value, weight):
        k = value.k
        if isinstance(weight, Ax):
            k = _combine(k, weight.k)
        return Ax(k, True)

    def t_attr(self, x, name):
        if name in ("shape", "ndim", "dtype", "device", "requires_grad"):
            return None
        if name == "weight":
            return Ax(x.k) if x.weighted else None
        return Ax(x.k, False)

    def t_join(self, a, b):
        if a.k == b.k:
            return Ax(a.k, a.weighted or b.weighted)
        return Ax(_combine(a.k, b.k) if {a.k, b.k} != {"POP", "IND"} else "IND", a.weighted or b.weighted)

    def t_is_weighted(self, x):
        return BOTH if x.weighted else False

    def t_logprob(self, family, params, x):
        k = self.lift(x).k
        for p in params:
            k = _combine(k, self.lift(p).k)
        return Ax(k)

    def t_named(self, name, args, kw):
        if name == "compute_orthonormal_basis":
            k = "POP"
            for a in args:
                k = _combine(k, self.lift(a).k)
            return Ax(k if k == "POP" else "MIXED")
        if name == "compute_std_from_variance":
            return Ax(self.lift(args[0]).k)
        return NotImplemented

    def initial(self, g, node):
        if node.kind in ("DataVariable", "IndividualLatentVariable"):
            return Ax("IND", node.kind == "DataVariable")
        return Ax("POP")


_CACHE: Dict[tuple, Dict[str, str]] = {}


def axis_of_graph(ctx, g) -> Dict[str, str]:
    """name -> POP | IND | AGG | MIXED for every node of the configuration of graph g (cached)."""
    key = (ctx.ix.digest + ctx.ix.repo + ctx.ix.serial, g.cfg.name)
    if key in _CACHE:
        return _CACHE[key]
    dom = AxisDomain(ctx.ix)
    dg = domain_graph(dom, g.cfg)
    vals, failures = dom.eval_graph(dg)
    out = {}
    for n, v in vals.items():
        if isinstance(v, tuple):
            k = "POP"
            for x in v:
                k = _combine(k, x.k if isinstance(x, Ax) else "MIXED")
            out[n] = k
        else:
            out[n] = v.k if isinstance(v, Ax) else "MIXED"
    for n, why in failures.items():
        out[n] = "UNKNOWN:" + why
    # what is computed from a node the domain could not evaluate is not known to mix anything either
    for n in failures:
        for d in g.descendants(n):
            if out.get(d) == "MIXED":
                out[d] = f"UNKNOWN:derived from `{n}`, which could not be evaluated"
    _CACHE[key] = out
    return out
