"""Mask-kind abstract domain (C04.R3, C06.R3/R4).

Tracks, for every tensor value of a model's variable graph / update rule, how
it relates to the two missing-data masks of a dataset:
    't'  visit mask  (padding that aligns individuals with fewer visits)
    'y'  observation mask (padding + missing entries); y implies t
An abstract value records
    w     weight mask if the value is a WeightedTensor ('t','y','e' = explicit non-mask weights, 'none' = no weights), None if plain
    zero  for plain tensors: mask m such that the value is 0 wherever m is False ("P0(m)")
    req   strongest mask among the data it derives from while it still has data axes (None: not data-shaped)
    agg   for aggregated values: the mask under which the aggregation was taken
    isw   the value *is* the weight tensor of mask isw
Flags (recorded with the graph node / update rule being evaluated):
    F1  a reduction over data axes of a value that is neither weighted by, nor zeroed outside, a mask at least as strong as `req`
    F2  aggregates taken under different masks combined in one formula
"""
from __future__ import annotations

from typing import Dict, List, Optional, Tuple

from ..interp import BOTH, Opaque
from .base import AV, TensorDomain, domain_graph

_ORD = {None: 0, "none": 0, "e": 0, "t": 1, "y": 2}


def strongest(a, b):
    return a if _ORD[a] >= _ORD[b] else b


def weakest(a, b):
    if a is None or b is None:
        return None
    return a if _ORD[a] <= _ORD[b] else b


class Mk(AV):
    __slots__ = ("w", "zero", "req", "agg", "isw")

    def __init__(self, w=None, zero=None, req=None, agg=None, isw=None):
        self.w, self.zero, self.req, self.agg, self.isw = w, zero, req, agg, isw

    def __repr__(self):
        if self.isw:
            return f"Weight({self.isw})"
        s = f"W({self.w})" if self.w else (f"P0({self.zero})" if self.zero else "P")
        if self.req:
            s += f"[data:{self.req}]"
        if self.agg:
            s += f"[agg:{self.agg}]"
        return s

    def __eq__(self, o):
        return isinstance(o, Mk) and (self.w, self.zero, self.req, self.agg, self.isw) == (o.w, o.zero, o.req, o.agg, o.isw)

    def __hash__(self):
        return hash((self.w, self.zero, self.req, self.agg, self.isw))


ZERO_KEEPING_UNARY = {"square", "abs", "neg", "sqrt", "float", "double", "clone", "detach", "to", "cpu", "sign", "contiguous", "relu", "as_tensor", "nan_to_num", "type", "half", "int", "long"}
ZERO_LOSING_UNARY = {"exp", "log", "sigmoid", "erf", "log1p", "expm1", "tanh", "ones_like", "zeros_like", "full_like", "isnan", "isinf", "isfinite", "logical_not", "bool"}
MASK_AWARE = {"sum_dim", "wsum_value", "wsum_weight"}
SUM_LIKE = {"sum_dim", "sum", "nansum", "wsum_value"}


class MaskDomain(TensorDomain):
    NAME = "mask-kind"

    def const(self, v=None):
        return Mk()

    def top(self):
        return Mk(req="y")  # unknown data-shaped raw value: any reduction of it is flagged

    # ---------------------------------------------------------------- transfer
    def t_binop(self, op, a, b, raw=(None, None)):
        if a.isw or b.isw:
            # arithmetic on weight tensors (e.g. weight * filled(0)) : the product is zero outside the mask
            m = a.isw or b.isw
            other = b if a.isw else a
            if op == "mul" and m in ("t", "y"):
                return Mk(zero=strongest(m, other.zero), req=strongest(other.req, m))
            if op in ("cmp", "and", "or"):
                return Mk(isw=m)
            return Mk(req=strongest(other.req, m if m in ("t", "y") else None))
        req = strongest(a.req, b.req)
        agg = None
        if a.agg and b.agg and a.agg != b.agg and not req:
            self.flag(f"F2 aggregates taken under different masks are combined: {a.agg!r}-masked with {b.agg!r}-masked "
                      f"(e.g. a sum over visited entries with a sum over observed entries)")
        if not req:
            agg = strongest(a.agg, b.agg)
        if a.w or b.w:
            ws = [x.w for x in (a, b) if x.w and x.w != "none"]
            w = ws[0] if ws else "none"
            for x in ws[1:]:
                w = strongest(w, x)
            zero = None
            if w == "none":
                zero = self._zero_binop(op, a, b)
            return Mk(w=w, zero=zero, req=req, agg=agg)
        return Mk(zero=self._zero_binop(op, a, b), req=req, agg=agg)

    @staticmethod
    def _zero_binop(op, a, b):
        if op == "mul":
            return strongest(a.zero, b.zero)
        if op in ("div", "pow", "mod"):
            return a.zero
        if op in ("add", "sub"):
            return weakest(a.zero, b.zero)
        return None

    def t_unary(self, fn, x, args=(), kw=None):
        if x.isw:
            return Mk(isw=x.isw)
        if fn == "filled":
            fill = args[0] if args else None
            if x.w in ("t", "y") and fill == 0:
                return Mk(zero=x.w, req=x.req, agg=x.agg)
            if x.w in ("t", "y") and fill is not None:
                return Mk(req=x.req, agg=x.agg)
            return Mk(zero=x.zero if x.w == "none" else None, req=x.req, agg=x.agg)
        if fn == "masked_fill":
            return Mk(w=x.w, req=x.req, agg=x.agg)
        if fn == "clamp":
            return Mk(w=x.w, zero=None if x.w else None, req=x.req, agg=x.agg)
        if fn in ZERO_LOSING_UNARY:
            return Mk(w=x.w, zero=None, req=x.req, agg=x.agg)
        if fn in ZERO_KEEPING_UNARY:
            return Mk(w=x.w, zero=x.zero, req=x.req, agg=x.agg)
        return Mk(w=x.w, zero=None, req=x.req, agg=x.agg)

    def t_reduce(self, how, x, dim, but_dim, kw):
        if how in ("item", "tolist"):
            return x
        if how == "softmax":
            return Mk(w=x.w, req=x.req, agg=x.agg)
        if x.isw:
            return Mk(agg=x.isw if x.isw in ("t", "y") else None)
        if not x.req:
            return Mk(agg=x.agg)
        eff = None
        if x.w in ("t", "y") and (how in MASK_AWARE or how in ("sum", "mean") and x.w):
            # WeightedTensor.sum / sum_dim / wsum are mask-aware (C06.R1 checks their source); torch.mean on a WeightedTensor is not
            if how in MASK_AWARE or how == "sum":
                eff = x.w
        elif x.w is None and x.zero and how in SUM_LIKE:
            eff = x.zero
        elif x.w == "none" and x.zero and how in SUM_LIKE:
            eff = x.zero
        if eff is None or _ORD[eff] < _ORD[x.req]:
            have = f"weighted by {x.w!r}" if x.w else (f"zeroed outside {x.zero!r}" if x.zero else "a raw tensor (mask lost)")
            self.flag(f"F1 `{how}` over data axes of a value that derives from {x.req!r}-masked data but is {have}: "
                      f"entries that are {'missing or ' if x.req == 'y' else ''}padding contribute to the aggregate")
        return Mk(agg=eff or x.req)

    def t_index(self, x, idx):
        return x

    def t_reshape(self, how, x, args, kw):
        return x

    def t_where(self, c, a, b):
        a, b, c = self.lift(a), self.lift(b), self.lift(c)
        req = strongest(strongest(a.req, b.req), c.req)
        ws = [x.w for x in (a, b) if x.w]
        return Mk(w=ws[0] if ws else None, zero=weakest(a.zero, b.zero), req=req, agg=strongest(a.agg, b.agg) if not req else None)

    def t_cat(self, xs, dim):
        acc = self.lift(xs[0])
        for x in xs[1:]:
            acc = self.t_join(acc, self.lift(x))
        return acc

    def t_matmul(self, a, b):
        return Mk(req=strongest(a.req, b.req), agg=strongest(a.agg, b.agg) if not (a.req or b.req) else None)

    def t_wt(self, value, weight):
        if isinstance(weight, Mk):
            if weight.isw:
                m = weight.isw
                return Mk(w=m, req=strongest(value.req, m if m in ("t", "y") else None), agg=value.agg)
            return Mk(w="e", req=value.req, agg=value.agg)
        if weight is None:
            return Mk(w="none", zero=value.zero, req=value.req, agg=value.agg)
        return Mk(w="e", req=value.req, agg=value.agg)

    def t_attr(self, x, name):
        if name in ("shape", "ndim", "dtype", "device", "requires_grad"):
            return None
        if name == "weight":
            if x.w in ("t", "y", "e"):
                return Mk(isw=x.w)
            return None
        if name == "weighted_value":
            if x.w in ("t", "y"):
                return Mk(zero=x.w, req=x.req, agg=x.agg)
            return Mk(zero=x.zero, req=x.req, agg=x.agg)
        if name in ("value", "data", "real"):
            return Mk(zero=x.zero if x.w in (None, "none") else None, req=x.req, agg=x.agg)
        return x

    def t_join(self, a, b):
        if a == b:
            return a
        w = a.w if a.w == b.w else (a.w or b.w)
        return Mk(w=w, zero=weakest(a.zero, b.zero), req=strongest(a.req, b.req), agg=strongest(a.agg, b.agg), isw=a.isw if a.isw == b.isw else None)

    def t_is_weighted(self, x):
        return bool(x.w)

    def t_logprob(self, family, params, x):
        x = self.lift(x)
        req = x.req
        for p in params:
            req = strongest(req, self.lift(p).req)
        return Mk(req=req)

    def t_named(self, name, args, kw):
        if name == "compute_orthonormal_basis":
            return Mk()
        if name == "compute_std_from_variance":
            return self.lift(args[0] if args else kw.get("variance"))
        return NotImplemented

    def initial(self, g, node):
        if node.kind == "DataVariable":
            if node.name == "t":
                return Mk(w="t", req="t")
            if node.name == "y":
                return Mk(w="y", req="y")
            return Mk(w="e")
        return Mk()


class MaskResult:
    def __init__(self, cfg, vals, failures, flags, rules):
        self.cfg = cfg
        self.vals = vals
        self.failures = failures
        self.flags = flags  # list of (context, message)
        self.rules = rules  # list of (param, which, value, error)


_CACHE: Dict[tuple, MaskResult] = {}


def mask_of_graph(ctx, g) -> MaskResult:
    key = (ctx.ix.digest + ctx.ix.repo + ctx.ix.serial, g.cfg.name)
    if key in _CACHE:
        return _CACHE[key]
    dom = MaskDomain(ctx.ix)
    dg = domain_graph(dom, g.cfg)
    vals, failures = dom.eval_graph(dg)
    rules = list(dom.eval_update_rules(dg, vals))
    r = MaskResult(g.cfg, vals, failures, list(dom.flags), rules)
    _CACHE[key] = r
    return r
