"""E4 - shared plumbing of the abstract interpretations over tensor code.

`TensorDomain` is the E3 interpreter in which tensors are *abstract values*
(`AV` subclasses).  Everything the repository does with a tensor is routed to
a handful of transfer functions (`t_binop`, `t_unary`, `t_reduce`, `t_index`,
`t_reshape`, `t_where`, `t_cat`, `t_matmul`, `t_wt`, `t_attr`, `t_join`) that
each domain implements.  The helpers of `leaspy.utils.weighted_tensor` and the
`WeightedTensor` class are *primitives* (summarised, not interpreted); their own
source is checked structurally by C06.R1.  A branch on an abstract condition is
evaluated on both sides and joined (no path enumeration beyond that).
"""
from __future__ import annotations

import ast
from typing import Dict, List, Optional, Tuple

from ..index import AnalysisError, Index
from ..interp import BOTH, Native, Closure, ClsRef, Ext, ExtCall, FuncRef, Interp, Obj, Opaque, PyRaise, Unsupported
from ..specgraph import Graph, SpecInterp, build, Config

WT_MOD = "leaspy.utils.weighted_tensor._weighted_tensor"
WT_UTILS = "leaspy.utils.weighted_tensor._utils"
WT_FACTORY = "leaspy.utils.weighted_tensor._factory"
WT_KEY = (WT_MOD, "WeightedTensor")

UNARY_TORCH = {"exp", "log", "sigmoid", "square", "abs", "sqrt", "sign", "clone", "erf", "log1p", "expm1", "tanh", "relu", "neg",
               "isnan", "isinf", "isfinite", "logical_not", "floor", "ceil", "round", "nan_to_num", "float", "detach"}
REDUCE_TORCH = {"sum", "mean", "std", "var", "norm", "min", "max", "amax", "amin", "prod", "logsumexp", "any", "all", "argmax", "argmin",
                "median", "nansum", "nanmean", "count_nonzero", "trapezoid"}
CONST_TORCH = {"zeros", "ones", "tensor", "eye", "arange", "full", "empty", "as_tensor", "linspace", "Size", "diag_embed", "scalar_tensor"}
LIKE_TORCH = {"ones_like", "zeros_like", "full_like", "empty_like"}
UNARY_METHODS = {"float", "double", "abs", "sqrt", "exp", "log", "clone", "detach", "to", "cpu", "bool", "int", "long", "neg", "sigmoid",
                 "square", "contiguous", "type", "half", "requires_grad_", "nan_to_num", "isnan", "logical_not"}
RESHAPE_METHODS = {"view", "expand", "unsqueeze", "squeeze", "reshape", "expand_as", "flatten", "repeat", "permute", "transpose", "t"}
REDUCE_METHODS = {"sum", "mean", "std", "var", "min", "max", "any", "all", "argmax", "argmin", "norm", "prod", "amax", "amin", "item", "tolist"}


class AV:
    """Base class of abstract tensor values."""


class Meth:
    def __init__(self, x, name):
        self.x = x
        self.name = name


class DistObj:
    def __init__(self, family, params):
        self.family = family
        self.params = params


class TensorDomain(SpecInterp):
    NAME = "domain"

    def __init__(self, ix: Index):
        super().__init__(ix)
        self.flags: List[Tuple[str, str]] = []  # (context, message) raised by transfer functions
        self.context = "?"
        P = self.primitives
        for fn in ("sum_dim", "wsum_dim", "wsum_dim_return_weighted_sum_only", "wsum_dim_return_sum_of_weights_only"):
            if (WT_UTILS, fn) not in ix.funcs:
                raise AnalysisError("E4", f"anchor vanished: {WT_UTILS}.{fn}")
            P[(WT_UTILS, fn)] = self._prim_reduce(fn)
        for fn in ("unsqueeze_right", "expand_left", "expand_right"):
            if (WT_UTILS, fn) in ix.funcs:
                P[(WT_UTILS, fn)] = self._prim_reshape(fn)
        if WT_KEY not in ix.classes:
            raise AnalysisError("E4", "anchor vanished: WeightedTensor class")
        self.class_primitives[WT_KEY] = lambda I, args, kw: self._wt_new(args, kw)
        P[(WT_MOD, "WeightedTensor.get_filled_value_and_weight")] = lambda I, f, args, kw: self._filled_and_weight(args, kw)
        if (WT_FACTORY, "factory_weighted_tensor_unary_operator") in ix.funcs:
            P[(WT_FACTORY, "factory_weighted_tensor_unary_operator")] = lambda I, f, args, kw: self._unary_factory(args, kw)

    # ------------------------------------------------------------ to implement
    def const(self, v=None) -> AV:
        raise NotImplementedError

    def top(self) -> AV:
        raise NotImplementedError

    def t_binop(self, op: str, a: AV, b: AV, raw=(None, None)) -> AV:
        raise NotImplementedError

    def t_unary(self, fn: str, x: AV, args=(), kw=None) -> AV:
        raise NotImplementedError

    def t_reduce(self, how: str, x: AV, dim, but_dim, kw) -> AV:
        raise NotImplementedError

    def t_index(self, x: AV, idx) -> AV:
        return x

    def t_reshape(self, how: str, x: AV, args, kw) -> AV:
        return x

    def t_where(self, c, a, b) -> AV:
        return self.t_join(self.lift(a), self.lift(b))

    def t_cat(self, xs, dim) -> AV:
        acc = self.lift(xs[0])
        for x in xs[1:]:
            acc = self.t_join(acc, self.lift(x))
        return acc

    def t_matmul(self, a: AV, b: AV) -> AV:
        return self.t_binop("matmul", a, b)

    def t_wt(self, value: AV, weight) -> AV:
        raise NotImplementedError

    def t_attr(self, x: AV, name: str):
        raise NotImplementedError

    def t_join(self, a: AV, b: AV) -> AV:
        raise NotImplementedError

    def t_is_weighted(self, x: AV):
        """True / False / BOTH : is the abstract value a WeightedTensor ?"""
        return False

    def t_logprob(self, family: str, params, x) -> AV:
        acc = self.lift(x)
        for p in params:
            acc = self.t_binop("add", acc, self.lift(p))
        return acc

    def t_softmax(self, x: AV, dim) -> AV:
        return self.t_reduce("softmax", x, dim, None, {})

    def t_named(self, name: str, args, kw):
        """Summaries of repository functions that a domain does not want to interpret. Return NotImplemented to interpret."""
        return NotImplemented

    def flag(self, msg: str):
        self.flags.append((self.context, msg))

    # ---------------------------------------------------------------- lifting
    def is_abstract(self, v) -> bool:
        return isinstance(v, (AV, Meth, DistObj))

    def lift(self, v) -> AV:
        if isinstance(v, AV):
            return v
        if isinstance(v, (int, float, bool, type(None), Opaque, tuple, list, str)):
            return self.const(v)
        if v is BOTH:
            return self.const(None)
        raise Unsupported(f"cannot lift {v!r} into domain {self.NAME}")

    def truth(self, v):
        if v is BOTH:
            return BOTH
        return super().truth(v)

    # ------------------------------------------------------------ primitives
    @staticmethod
    def _dims(kw, args=()):
        dim = kw.get("dim", kw.get("axis"))
        if dim is None and args:
            dim = args[0]
        return dim, kw.get("but_dim")

    def _prim_reduce(self, fn):
        def h(I, f, args, kw):
            x = self.lift(args[0])
            dim, but = self._dims(kw)
            how = {"sum_dim": "sum_dim", "wsum_dim": "wsum", "wsum_dim_return_weighted_sum_only": "wsum_value",
                   "wsum_dim_return_sum_of_weights_only": "wsum_weight"}[fn]
            if how == "wsum":
                return (self.t_reduce("wsum_value", x, dim, but, kw), self.t_reduce("wsum_weight", x, dim, but, kw))
            return self.t_reduce(how, x, dim, but, kw)
        return h

    def _prim_reshape(self, fn):
        def h(I, f, args, kw):
            return self.t_reshape(fn, self.lift(args[0]), args[1:], kw)
        return h

    def _wt_new(self, args, kw):
        value = args[0] if args else kw.get("value")
        weight = args[1] if len(args) > 1 else kw.get("weight")
        return self.t_wt(self.lift(value), weight)

    def _filled_and_weight(self, args, kw):
        x = self.lift(args[0])
        return (self.t_unary("filled", x, (kw.get("fill_value"),), {}), self.t_attr(x, "weight"))

    def _unary_factory(self, args, kw):
        f = args[0]
        if isinstance(f, Ext) and f.name.startswith("torch."):
            short = f.name[len("torch."):]

            def op(x, *a, **k):
                return self.t_unary(short, self.lift(x), a, k)
            return Native(op, short)
        raise Unsupported(f"factory_weighted_tensor_unary_operator({f!r})")

    def call_function(self, f: FuncRef, args, kw):
        r = self.t_named(f.func.qual if f.func.cls else f.func.name, args, kw)
        if r is not NotImplemented:
            return r
        return super().call_function(f, args, kw)

    # -------------------------------------------------------------- ext calls
    def ext_call(self, name, args, kw):
        if name.startswith("torch.distributions.") or name.startswith("torch.distributions"):
            fam = name.split(".")[-1]
            return DistObj(fam, list(args))
        if name == "torch.nn.Softmax":
            dim = kw.get("dim", args[0] if args else None)
            return Native(lambda x: self.t_softmax(self.lift(x), dim))
        if name in ("torch.softmax", "torch.nn.functional.softmax", "torch.log_softmax", "torch.nn.functional.log_softmax") and args:
            dim = kw.get("dim", args[1] if len(args) > 1 else None)
            return self.t_softmax(self.lift(args[0]), dim)
        if name.startswith("torch."):
            short = name[len("torch."):]
            if short in UNARY_TORCH:
                return self.t_unary(short, self.lift(args[0]), tuple(args[1:]), kw)
            if short == "clamp":
                return self.t_unary("clamp", self.lift(args[0]), tuple(args[1:]), kw)
            if short == "pow":
                return self.t_binop("pow", self.lift(args[0]), self.lift(args[1]), raw=(args[0], args[1]))
            if short in ("isclose", "eq", "ne", "lt", "le", "gt", "ge", "logical_and", "logical_or", "logical_xor", "maximum", "minimum", "fmax", "fmin") and len(args) >= 2:
                # element-wise binary functions: same propagation as the corresponding operator
                return self.t_binop("cmp" if short in ("isclose", "eq", "ne", "lt", "le", "gt", "ge") else ("and" if short.startswith("logical") else "add"),
                                    self.lift(args[0]), self.lift(args[1]), raw=(args[0], args[1]))
            if short in LIKE_TORCH:
                return self.t_unary(short, self.lift(args[0]), tuple(args[1:]), kw)
            if short in CONST_TORCH:
                if any(isinstance(a, AV) for a in args):
                    return self.t_unary("as_tensor", self.lift(args[0]), (), kw)
                return self.const(ExtCall(name, args, kw))
            if short == "where":
                if len(args) == 3:
                    return self.t_where(args[0], args[1], args[2])
                raise Unsupported("torch.where with one argument")
            if short in ("cat", "stack", "concat", "hstack", "vstack"):
                xs = list(self.iterate(args[0]))
                return self.t_cat(xs, kw.get("dim", kw.get("axis", args[1] if len(args) > 1 else 0)))
            if short in ("matmul", "mm", "bmm", "einsum"):
                if short == "einsum":
                    raise Unsupported("einsum")
                return self.t_matmul(self.lift(args[0]), self.lift(args[1]))
            if short in ("t", "transpose"):
                return self.t_reshape("transpose", self.lift(args[0]), args[1:], kw)
            if short in REDUCE_TORCH:
                dim, but = self._dims(kw, args[1:])
                return self.t_reduce(short, self.lift(args[0]), dim, but, kw)
            if short in ("broadcast_tensors",):
                acc = self.lift(args[0])
                for a in args[1:]:
                    acc = self.t_binop("add", acc, self.lift(a))
                return tuple(acc for _ in args)
            if short in ("index_put",):
                return self.t_binop("add", self.lift(args[0]), self.lift(kw.get("values", args[2] if len(args) > 2 else 0)))
            if short in ("equal", "allclose", "is_tensor"):
                return BOTH
            if short in ("Tensor.view", "Tensor.expand", "Tensor.to", "Tensor.cpu"):
                return self.t_reshape(short.split(".")[-1], self.lift(args[0]), args[1:], kw)
        if name in ("math.log", "math.exp", "math.sqrt") and args and isinstance(args[0], (int, float)):
            import math
            return getattr(math, name.split(".")[1])(args[0])
        if name in ("math.log", "math.exp", "math.sqrt", "math.log1p", "math.expm1", "math.fabs") and args and isinstance(args[0], AV):
            # scalar functions of a value taken out of a tensor (`x.item()`): propagated like the element-wise torch function
            short = {"fabs": "abs"}.get(name.split(".")[1], name.split(".")[1])
            return self.t_unary(short if short in UNARY_TORCH else "exp", self.lift(args[0]), (), {})
        if name in ("operator.add", "operator.sub", "operator.mul", "operator.truediv"):
            return self.abs_binop({"add": ast.Add(), "sub": ast.Sub(), "mul": ast.Mult(), "truediv": ast.Div()}[name.split(".")[1]], args[0], args[1])
        # configuration / dtype / device queries take no tensor: their result is a plain opaque constant in every domain
        if name in ("torch.get_default_dtype", "torch.get_default_device", "torch.finfo", "torch.iinfo", "torch.device", "torch.is_grad_enabled", "torch.get_num_threads") \
                and not any(isinstance(a, AV) for a in args):
            return ExtCall(name, args, kw)
        raise Unsupported(f"external call {name} in domain {self.NAME}")

    def ext_isinstance(self, v, extname) -> bool:
        if isinstance(v, AV) and extname.split(".")[-1] == "Tensor":
            w = self.t_is_weighted(v)
            if w is BOTH:
                return BOTH
            return not w
        return False

    def cls_isinstance(self, v, key):
        if isinstance(v, AV) and key == WT_KEY:
            return self.t_is_weighted(v)
        return False

    def isinstance_(self, v, c):
        if isinstance(v, AV):
            cs = c if isinstance(c, tuple) else (c,)
            res = False
            for ci in cs:
                r = self.ext_isinstance(v, ci.name) if isinstance(ci, Ext) else (self.cls_isinstance(v, ci.key) if isinstance(ci, ClsRef) else False)
                if r is True:
                    return True
                if r is BOTH:
                    res = BOTH
            return res
        return super().isinstance_(v, c)

    # ------------------------------------------------------- abstract hooks
    _OPN = {ast.Add: "add", ast.Sub: "sub", ast.Mult: "mul", ast.Div: "div", ast.Pow: "pow", ast.MatMult: "matmul", ast.FloorDiv: "div",
            ast.Mod: "mod", ast.BitAnd: "and", ast.BitOr: "or"}

    def abs_binop(self, op, a, b):
        n = self._OPN.get(type(op))
        if n is None:
            raise Unsupported(f"operator {type(op).__name__} on abstract values")
        if isinstance(a, (Meth, DistObj)) or isinstance(b, (Meth, DistObj)):
            raise Unsupported("arithmetic on a bound method")
        if n == "matmul":
            return self.t_matmul(self.lift(a), self.lift(b))
        return self.t_binop(n, self.lift(a), self.lift(b), raw=(a, b))

    def abs_unary(self, op, v):
        if isinstance(op, ast.USub):
            return self.t_unary("neg", self.lift(v))
        if isinstance(op, ast.Invert):
            return self.t_unary("logical_not", self.lift(v))
        if isinstance(op, ast.UAdd):
            return self.lift(v)
        raise Unsupported("unary operator on abstract value")

    def abs_compare(self, ops, vals):
        acc = self.lift(vals[0])
        for v in vals[1:]:
            acc = self.t_binop("cmp", acc, self.lift(v), raw=(vals[0], v))
        return acc

    def abs_subscript(self, o, k):
        if isinstance(o, AV):
            return self.t_index(o, k)
        return Opaque("sub")

    def abs_truth(self, v):
        return BOTH

    def abs_iter(self, v):
        raise Unsupported(f"iteration over abstract value {v!r}")

    def abs_range(self, args):
        # a loop over a data-dependent range is summarised by ONE symbolic iteration (sound for the index-insensitive,
        # idempotent-join domains used here; recorded as an assumption in the evidence)
        self.loop_summaries = getattr(self, "loop_summaries", 0) + 1
        return [Opaque("i")]

    def abs_setitem(self, o, k, v):
        raise Unsupported("in-place item assignment on an abstract tensor")

    def join(self, a, b):
        if isinstance(a, AV) or isinstance(b, AV):
            if a is None or b is None:
                return self.t_join(self.lift(a if a is not None else b), self.lift(b if b is not None else a))
            return self.t_join(self.lift(a), self.lift(b))
        if isinstance(a, tuple) and isinstance(b, tuple) and len(a) == len(b):
            return tuple(self.join(x, y) for x, y in zip(a, b))
        return super().join(a, b)

    def abs_getattr(self, o, name):
        if isinstance(o, DistObj):
            if name in ("log_prob", "cdf", "icdf"):
                return Native(lambda x: self.t_logprob(o.family, o.params, x))
            if name in ("mean", "stddev", "variance", "mode"):
                acc = self.lift(o.params[0])
                for p in o.params[1:]:
                    acc = self.t_binop("add", acc, self.lift(p))
                return acc
            if name in ("sample", "rsample"):
                return Native(lambda *a, **k: self.t_logprob(o.family, o.params, self.const(None)))
            raise Unsupported(f"distribution attribute {name}")
        if isinstance(o, Meth):
            raise Unsupported("attribute of a bound method")
        if name in ("shape", "ndim", "dtype", "device", "requires_grad", "is_cuda"):
            r = self.t_attr(o, name)
            return r if r is not None else Opaque(name)
        if name in ("value", "weight", "weighted_value", "T", "mT", "data", "real"):
            if name in ("T", "mT"):
                return self.t_reshape("transpose", o, (), {})
            return self.t_attr(o, name)
        return Meth(o, name)

    def abs_call(self, f, args, kw):
        if isinstance(f, Meth):
            return self.t_method(f.x, f.name, args, kw)
        if isinstance(f, Ext) and f.name == "builtins.len":
            return Opaque("len")
        if isinstance(f, Ext) and f.name in ("builtins.float", "builtins.int", "builtins.bool", "builtins.abs"):
            return self.lift(args[0])
        if isinstance(f, Ext) and f.name in ("builtins.max", "builtins.min", "builtins.sum"):
            acc = self.lift(args[0])
            for a in args[1:]:
                acc = self.t_binop("add", acc, self.lift(a))
            return acc
        raise Unsupported(f"call of {f!r} on abstract values")

    def t_method(self, x: AV, name: str, args, kw):
        if name in UNARY_METHODS:
            return self.t_unary(name, x, tuple(args), kw)
        if name in RESHAPE_METHODS:
            return self.t_reshape(name, x, tuple(args), kw)
        if name in REDUCE_METHODS:
            dim, but = self._dims(kw, args)
            return self.t_reduce(name, x, dim, but, kw)
        if name in ("softmax", "log_softmax"):
            return self.t_softmax(x, kw.get("dim", args[0] if args else None))
        if name == "wsum":
            dim, but = self._dims(kw, args)
            return (self.t_reduce("wsum_value", x, dim, but, kw), self.t_reduce("wsum_weight", x, dim, but, kw))
        if name == "filled":
            return self.t_unary("filled", x, tuple(args) or (kw.get("fill_value"),), {})
        if name == "valued":
            return self.t_wt(self.lift(args[0]), self.t_attr(x, "weight"))
        if name in ("masked_fill", "masked_fill_"):
            return self.t_unary("masked_fill", x, tuple(args), kw)
        if name in ("index_put", "index_put_"):
            return self.t_binop("add", x, self.lift(kw.get("values", args[1] if len(args) > 1 else 0)))
        if name in ("map",):
            f = args[0]
            r = self.call(f, [self.t_unary("filled", x, (kw.get("fill_value"),), {})] + list(args[1:]), {k: v for k, v in kw.items() if k != "fill_value"})
            return self.t_wt(self.lift(r), self.t_attr(x, "weight"))
        if name in ("size", "dim", "numel", "nelement"):
            return Opaque(name)
        if name in ("matmul", "mm"):
            return self.t_matmul(x, self.lift(args[0]))
        if name in ("pow",):
            return self.t_binop("pow", x, self.lift(args[0]), raw=(x, args[0]))
        if name in ("clamp", "clip"):
            return self.t_unary("clamp", x, tuple(args), kw)
        if name in ("add", "sub", "mul", "div"):
            return self.t_binop(name, x, self.lift(args[0]), raw=(x, args[0]))
        if name in ("unique", "nonzero"):
            return self.t_reduce("any", x, None, None, {})
        raise Unsupported(f"tensor method .{name}() in domain {self.NAME}")

    # ------------------------------------------------------- graph evaluation
    def initial(self, g: Graph, node) -> AV:
        raise NotImplementedError

    def eval_graph(self, g: Graph, overrides: Optional[Dict[str, AV]] = None):
        """Abstract value of every node (topological order). Returns (values, failures)."""
        vals: Dict[str, object] = {}
        failures: Dict[str, str] = {}
        for name in g.topo_order():
            node = g.nodes[name]
            if overrides and name in overrides:
                vals[name] = overrides[name]
                continue
            if node.kind != "LinkedVariable":
                vals[name] = self.initial(g, node)
                continue
            self.context = f"{g.cfg.name}:{name}"
            try:
                vals[name] = self.call(self.getattr_(node.var, "compute"), [vals], {})
                if vals[name] is None or not isinstance(vals[name], (AV, tuple)):
                    vals[name] = self.lift(vals[name]) if not isinstance(vals[name], Obj) else self.top()
            except (Unsupported, PyRaise) as e:
                failures[name] = f"{type(e).__name__}: {e}"
                vals[name] = self.top()
        return vals, failures

    def eval_update_rules(self, g: Graph, vals: Dict[str, AV]):
        """Yield (parameter, which, abstract result | None, error) for every update rule of the configuration."""
        for node in g.by_kind("ModelParameter"):
            for which in ("update_rule", "update_rule_burn_in"):
                rule = node.var.attrs.get(which)
                if rule is None:
                    continue
                self.context = f"{g.cfg.name}:{which}({node.name})"
                try:
                    params = self.call(self.resolve_name("leaspy.utils.functional._utils", "get_named_parameters"), [rule], {})
                    kws = {p: (vals[p] if p != "state" else vals) for p in params}
                    r = self.call(rule, [], kws)
                    yield node.name, which, r, None
                except (Unsupported, PyRaise) as e:
                    yield node.name, which, None, f"{type(e).__name__}: {e}"


def domain_graph(dom: TensorDomain, cfg: Config) -> Graph:
    return build(dom.ix, cfg, dom)
