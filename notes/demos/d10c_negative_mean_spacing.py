import warnings, signal; warnings.filterwarnings("ignore")
from leaspy.algo import AlgorithmSettings
from leaspy.algo.base import algorithm_factory
from leaspy.exceptions import LeaspyAlgoInputError
vp={'visit_type':'random','patient_number':3,'first_visit_mean':0.,'first_visit_std':0.4,'time_follow_up_mean':2,'time_follow_up_std':0.5,'distance_visit_mean':-1.,'distance_visit_std':0.1}
try:
    s=AlgorithmSettings("simulate", seed=0, features=["a","b"], visit_parameters=vp)
    a=algorithm_factory(s)
    print("ACCEPTED a design whose visit loop has a negative drift (would never reach the follow-up age)")
except LeaspyAlgoInputError as e:
    print("refused:", e)
