import warnings; warnings.filterwarnings("ignore")
from leaspy.io.outputs import IndividualParameters
ip=IndividualParameters()
ip.add_individual_parameters("a",{"random_intercept":[0.5],"xi":[0.1],"sources":[1.,2.]})
ip.add_individual_parameters("b",{"random_intercept":[0.7],"xi":[0.2],"sources":[3.,4.]})
df=ip.to_dataframe(); print(list(df.columns))
ip2=IndividualParameters.from_dataframe(df)
print(ip2._parameters_shape, ip2["b"])
assert ip2._parameters_shape==ip._parameters_shape, "names/shapes changed"
print("roundtrip ok")
