import warnings; warnings.filterwarnings("ignore")
import numpy as np, torch
from leaspy.models import LinearModel
from leaspy.algo import AlgorithmSettings
from leaspy.exceptions import LeaspyAlgoInputError
from leaspy.datasets import load_dataset
from leaspy.io.data.data import Data
df=load_dataset("parkinson")[["MDS1_total","MDS2_total"]].dropna()
df=(df-df.min())/(df.max()-df.min())
m=LinearModel("linear", source_dimension=1)
m.fit(Data.from_dataframe(df.iloc[:400]), "mcmc_saem", seed=0, n_iter=30, progress_bar=False)
vp={'visit_type':'random','patient_number':3,'first_visit_mean':0.,'first_visit_std':0.4,'time_follow_up_mean':2,'time_follow_up_std':0.5,'distance_visit_mean':0.5,'distance_visit_std':0.1}
np.random.seed(5); before=np.random.get_state()[1].copy(); pos0=np.random.get_state()[2]
try:
    m.simulate(algorithm="simulate", features=["MDS1_total","MDS2_total"], visit_parameters=vp)   # no seed: must not touch the generator when refusing
except LeaspyAlgoInputError as e:
    st=np.random.get_state()
    print("refused:", str(e)[:60], "| numpy generator consumed before the refusal:", not (np.array_equal(st[1],before) and st[2]==pos0))
