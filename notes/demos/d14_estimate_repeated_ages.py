import warnings; warnings.filterwarnings("ignore")
import pandas as pd, numpy as np
from leaspy.models import LogisticModel
from leaspy.io.outputs import IndividualParameters
m = LogisticModel.load("/repo/tests/_data/model_parameters/from_fit/logistic_scalar_noise.json") if False else None
from leaspy.models.base import BaseModel
m = BaseModel.load("/repo/tests/_data/model_parameters/from_fit/logistic_scalar_noise.json")
ips = IndividualParameters()
src = m.source_dimension
ips.add_individual_parameters("a", {"xi":[0.1],"tau":[70.],"sources":[0.]*src})
ips.add_individual_parameters("b", {"xi":[-0.1],"tau":[75.],"sources":[0.1]*src})
ix = pd.MultiIndex.from_tuples([("b", 70.), ("a", 65.), ("a", 60.), ("a", 65.)], names=["ID","TIME"])
out = m.estimate(ix, ips)
print(out.iloc[:, :1])
print("rows requested:", len(ix), "rows returned:", len(out), "same index:", list(out.index)==list(ix))
