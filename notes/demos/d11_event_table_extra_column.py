import warnings; warnings.filterwarnings("ignore")
import pandas as pd
from leaspy.io.data.data import Data
from leaspy.exceptions import LeaspyDataInputError
df=pd.DataFrame({"ID":["a","b"],"EVENT_TIME":[70.,71.],"EVENT_BOOL":[1,0],"EXTRA":[0.1,0.2]})
try:
    Data.from_dataframe(df, data_type="event")
    print("accepted")
except LeaspyDataInputError as e: print("data-input error:", str(e)[:80])
except Exception as e: print("OTHER:", type(e).__name__, str(e)[:80])
